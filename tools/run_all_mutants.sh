#!/bin/bash
# Re-run every seeded change against the checks that are expected to report it (quick tier).
# Needs exclusive use of /repo. Writes one line per seed to the file given as $1.
out="${1:-/tmp/mutants_summary.txt}"
: > "$out"
for d in /verif/seeded/*/; do
  id=$(basename "$d")
  checks=$(python3 -c "import json;print(' '.join(json.load(open('$d/meta.json'))['caught_by']))")
  res=$(timeout 1500 /verif/tools/try_mutant.sh "$d/patch.diff" $checks 2>&1 | grep "^==" | tr '\n' ' ')
  echo "$id: $res" >> "$out"
done
echo DONE >> "$out"
