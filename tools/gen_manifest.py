#!/usr/bin/env python3
"""Generate /verif/MANIFEST.json from the table below (kept in one place so it stays valid)."""
import json, os, sys
V = os.path.dirname(os.path.dirname(os.path.abspath(__file__)))

CHECKS = {
 "C01": dict(cat="model_checking", tech="bounded exhaustive enumeration of programs x input choice tree x width x level on the real IR interpreter, differential against a canonical reference model",
   text="Every program of the stated finite spaces (all balanced strings up to a length, all idiom-token sequences, a statement language that reaches the loop optimiser, the repository corpus) is run on the real IrInterpreter at every level (0..3, 4, u32::MAX) and width over an exhaustively explored input choice tree; the interleaved I/O log must equal the canonical trace. Complete inside the bound, silent about programs outside it.",
   note="Trusted: refbf (independent canonical interpreter), the harness' scripted Read/Write objects. Bound: program spaces, input alphabet {0,1,2,128,255}+EOF, step cap.", ref="§3 C01"),
 "C02": dict(cat="model_checking", tech="same bounded exhaustive differential exploration on the bytecode interpreter, in two build profiles (tail-called release dispatch and trampolined debug-assertions dispatch)",
   text="As C01 for BcInterpreter; both dispatchers are executed (release and release+debug-assertions builds of the checker).", note="Trusted: refbf; refbc is used only to localise failures.", ref="§3 C02"),
 "C03": dict(cat="model_checking", tech="same bounded exhaustive differential exploration on the x86-64 baseline JIT, plus the families W (wide assignments) and P (prefix chains with wide constants) that force stack temporaries and 64-bit immediates",
   text="As C01 for BaseJitCompiler, with instruction-form coverage reported.", note="Trusted: refbf. Runs real machine code in-process; crashes are attributed by the driver.", ref="§3 C03"),
 "C04": dict(cat="model_checking", tech="bounded exhaustive differential exploration of the in-place interpreter (one program length further than the other backends)",
   text="As C01 for InplaceInterpreter against an independent implementation (jump table instead of nesting-counter scan, separate tape).", note="Trusted: refbf.", ref="§3 C04"),
 "C05": dict(cat="model_checking", tech="exhaustive enumeration of programs whose canonical divergence is proved by exact state repetition; budget ladder, failing-sink and wall-clock observations on every backend",
   text="Divergence of the reference is proved (Brent cycle detection on full machine states), then every backend/level/width is observed: never finishes under any budget of the ladder, output before/in the cycle is exactly canonical, a failing sink at chosen positions returns with exactly the canonical prefix, silent cycles are still running after a window.",
   note="'Never returns' is decided inside a finite observation window; moving divergence is skipped (Unknown).", ref="§3 C05"),
 "C07": dict(cat="model_checking", tech="exhaustive enumeration of programs x budget ladder (0..2^62) x backend x level x width with a metric-agnostic prefix/complete oracle",
   text="finished => complete canonical trace; interrupted => prefix of the canonical stream; 2^62 => halting programs finish; provably cyclic programs never finish; the same after a plain execute on the same executor (history step).", note="Trusted: refbf incl. cycle proof.", ref="§3 C07"),
 "C08": dict(cat="fault_enumeration", tech="complete enumeration of the first failing I/O action (every position below a bound, every failure kind, input absent) for every program of the space on every backend",
   text="One run per (program, script, fault position, fault kind); log must be the canonical prefix ending with the failing attempt, no later event, normal return.", note="LLVM backend not buildable here and excluded.", ref="§3 C08"),
 "C06": dict(cat="model_checking", tech="bounded exhaustive enumeration of programs (incl. a family of far-walking programs) x backend x level x width x allocation placement, executed on the real code under an instrumented global allocator that puts every block flush against a PROT_NONE guard page",
   text="Any access outside the tape allocation on the guarded side faults (the tape has an array layout and is checked byte-exactly, both placements are run); contents must survive every reallocation because the I/O log must equal the canonical trace.",
   note="Trusted: the instrumented allocator in /verif/mc/shim/src/galloc.rs; the JIT's mmap'd code pages are not instrumented.", ref="§3 C06"),
 "C09": dict(cat="model_checking", tech="explicit-state breadth-first search over the real runtime::Memory<C> with state deduplication on the observable state, map model as oracle, guard-page allocator in both placements",
   text="All call histories up to a depth over a 52-call alphabet covering the three growth placements, far moves and the pointer round trip; after every history the model, monotonicity, contiguity and no-allocation-on-read invariants are checked, and the pointer-based bounds query check_ptr must agree with check.",
   note="Trusted: map model; interval measured by probing check().", ref="§3 C09"),
 "C10": dict(cat="model_checking", tech="bounded exhaustive enumeration of programs run through execute_unsafe on an exact-fit pre-grown tape between two guard pages",
   text="The unchecked entry point of the bytecode interpreter and the JIT is run on every halting program of the spaces whose checked twin agreed; faults and trace differences are violations.", note="Margin computed from the canonical excursion at the width under test.", ref="§3 C10"),
 "C11": dict(cat="model_checking", tech="explicit-state fixpoint exploration of the control-flow graph of every generated bytecode program (forward definite-initialisation states, backward liveness states) with the safety contract as invariant",
   text="The contract of the property is checked on every CFG path of every bytecode program generated for the spaces, for both generator settings, on the bytecode the executors actually hold.", note="Path-insensitive by design ('on any path').", ref="§3 C11"),
 "C12": dict(cat="model_checking", tech="exhaustive enumeration of all source strings over a 5-symbol alphabet up to a length, all 1-2 comment insertions, against a reference bracket matcher",
   text="Acceptance, error kind and character position for every string up to the bound; relational comment-insensitivity of parsing, printed IR and behaviour on all backends; totality on nesting families.", note="Alphabet {[,],+,x,e-acute} stands for all strings.", ref="§3 C12"),
 "C13": dict(cat="model_checking", tech="exhaustive enumeration of programs x width x level for create() in two build profiles, digests compared across independently seeded worker processes and compile histories, bounded scaling families",
   text="Totality (no panic) in both profiles; identical IR/bytecode/machine code across processes with different hash seeds and across in-process histories; executors reusable; compile time and size polynomial on scaling families up to the stated sizes.", note="Blow-up clause decided only up to the family sizes.", ref="§3 C13"),
 "C14": dict(cat="model_checking", tech="exhaustive enumeration of operand pairs at 8 bit (and 16 bit / 2^32 unary values in the thorough tier), boundary lattice at 32/64 bit, against definitions computed by independent algorithms",
   text="All operands where the space is finite enough; structured lattice otherwise (stated as not exhaustive).", note="Oracle: Newton-Hensel inverse, running products.", ref="§3 C14"),
 "C15": dict(cat="model_checking", tech="breadth-first closure of the public Expr API deduplicated on the expression's own Eq/Hash, every result evaluated under a complete grid of assignments",
   text="Every expression reachable in three rounds of add/mul/neg/half/normalize/substitution from the atom pool (pool cap reported) is compared with concrete modular arithmetic under all assignments of the grid; all decompositions must recompose.", note="split_along is checked directly (its private container types are built through inference): every partition of the variables into constant / linear / neither x a set of steps.", ref="§3 C15"),
 "C16": dict(cat="model_checking", tech="exhaustive enumeration of argv vectors from a flag alphabet run on the real binary, compared with a CLI model evaluated through the library API; strace for the executor actually used",
   text="Every combination of backend, width, level, limit, static, print options, flag order conflicts and code placements of the bounded family; stdout, exit status, stderr presence and stdin offset are compared.", note="Model evaluates through the library (tied to canonical semantics by C01-C10).", ref="§3 C16"),
 "C17": dict(cat="fault_enumeration", tech="complete enumeration of which allocation request (1st, 2nd, ...) fails, per grower program x backend x entry point, each run in its own process under the failing + guard-page allocator",
   text="For each program the fault-free run counts the tape/context allocation requests; every k is failed once; the process must end by SIGABRT or panic.", note="Candidates are the alloc_zeroed requests (hpbf uses them for the tape and the interpreter context only).", ref="§3 C17"),
 "C18": dict(cat="model_checking", tech="exhaustive enumeration of all operation sequences up to a depth on the real SmallVec (capacities 1 and 2, drop-tracked elements) against a Vec model and a drop ledger",
   text="Contents equal the Vec model after every step and every element is dropped exactly once at the end of every history.", note="Needs the feature-gated re-export of SmallVec.", ref="§3 C18"),
}

NOT_YET = {
}

def main():
    checks = []
    for pid, c in sorted(CHECKS.items()):
        checks.append({
            "property_id": pid,
            "quick_cmd": f"./check {pid} quick",
            "thorough_cmd": f"./check {pid} thorough",
            "evidence_file": f"/verif/evidence/{pid}.json",
            "replay_cmd_template": "./check replay {path}",
            "engine": "mc",
            "level_claimed": {"category": c["cat"], "text": c["text"], "design_ref": c["ref"]},
            "level_note": c["note"],
            "technique": c["tech"],
        })
    props = [json.loads(l)["id"] for l in open(os.path.join(V, "properties.jsonl"))]
    na = []
    for p in props:
        if p not in CHECKS:
            na.append({"property_id": p, "reason": NOT_YET.get(p, "check not built yet in this round (planned in DESIGN.md §3); nothing is claimed for it")})
    m = {
        "version": 1,
        "setup_cmd": "./check setup",
        "hooks": {
            "guard": "cargo feature verif-hooks (hpbf)",
            "enable": "the checker crate depends on hpbf by path with features=[\"verif-hooks\"]; cargo rebuilds /repo's working tree on every ./check invocation",
            "baseline_off_cmd": "cd /repo && (cargo nextest run --workspace --no-fail-fast --test-threads 8 --offline || cargo test --workspace --no-fail-fast --offline)",
            "source_commits": ["1ada688"],
            "add_only": True,
        },
        "engines": [{
            "name": "mc",
            "path": "/verif/mc",
            "serves_properties": sorted(CHECKS),
            "kind_free_text": "hand-rolled bounded-exhaustive explorer over the real Rust objects: multi-process driver, single-threaded workers, scripted environment, instrumented allocator, reference models (refbf, refbc) in Rust",
        }],
        "checks": checks,
        "not_applicable": na,
        "notes": "All checks rebuild hpbf from /repo's working tree through the cargo path dependency. Exit 0 = held, 1 = VIOLATION line printed, 2 = machinery failure. Genuine defects repaired by fix: commits are listed in known_findings.json.",
    }
    json.dump(m, open(os.path.join(V, "MANIFEST.json"), "w"), indent=1)
    print("wrote MANIFEST.json with", len(checks), "checks,", len(na), "not_applicable")

main()
