#!/usr/bin/env python3
"""Generate /verif/MANIFEST.json from the table below (kept in one place so it stays valid)."""
import json, os, sys
V = os.path.dirname(os.path.dirname(os.path.abspath(__file__)))

CHECKS = {
 "C01": dict(cat="model_checking", tech="bounded exhaustive enumeration of programs x input choice tree x width x level on the real IR interpreter, differential against a canonical reference model",
   text="Every program of the stated finite spaces (all balanced strings up to a length, all idiom-token sequences, a statement language that reaches the loop optimiser, the repository corpus) is run on the real IrInterpreter at every level (0..3, 4, u32::MAX) and width over an exhaustively explored input choice tree; the interleaved I/O log must equal the canonical trace. Complete inside the bound, silent about programs outside it.",
   note="Trusted: refbf (independent canonical interpreter), the harness' scripted Read/Write objects. Bound: program spaces, input alphabet {0,1,2,128,255}+EOF, step cap.", ref="§3 C01"),
 "C02": dict(cat="model_checking", tech="same bounded exhaustive differential exploration on the bytecode interpreter, in two build profiles (tail-called release dispatch and trampolined debug-assertions dispatch)",
   text="As C01 for BcInterpreter; both dispatchers are executed (release and release+debug-assertions builds of the checker).", note="Trusted: refbf; refbc is used only to localise failures.", ref="§3 C02"),
 "C03": dict(cat="model_checking", tech="same bounded exhaustive differential exploration on the x86-64 baseline JIT, plus the wide-assignment family W that forces stack temporaries and 64-bit immediates",
   text="As C01 for BaseJitCompiler, with instruction-form coverage reported.", note="Trusted: refbf. Runs real machine code in-process; crashes are attributed by the driver.", ref="§3 C03"),
 "C04": dict(cat="model_checking", tech="bounded exhaustive differential exploration of the in-place interpreter (one program length further than the other backends)",
   text="As C01 for InplaceInterpreter against an independent implementation (jump table instead of nesting-counter scan, separate tape).", note="Trusted: refbf.", ref="§3 C04"),
 "C05": dict(cat="model_checking", tech="exhaustive enumeration of programs whose canonical divergence is proved by exact state repetition; budget ladder, failing-sink and wall-clock observations on every backend",
   text="Divergence of the reference is proved (Brent cycle detection on full machine states), then every backend/level/width is observed: never finishes under any budget of the ladder, output before/in the cycle is exactly canonical, a failing sink at chosen positions returns with exactly the canonical prefix, silent cycles are still running after a window.",
   note="'Never returns' is decided inside a finite observation window; moving divergence is skipped (Unknown).", ref="§3 C05"),
 "C07": dict(cat="model_checking", tech="exhaustive enumeration of programs x budget ladder (0..2^62) x backend x level x width with a metric-agnostic prefix/complete oracle",
   text="finished => complete canonical trace; interrupted => prefix of the canonical stream; 2^62 => halting programs finish; provably cyclic programs never finish.", note="Trusted: refbf incl. cycle proof.", ref="§3 C07"),
 "C08": dict(cat="fault_enumeration", tech="complete enumeration of the first failing I/O action (every position below a bound, every failure kind, input absent) for every program of the space on every backend",
   text="One run per (program, script, fault position, fault kind); log must be the canonical prefix ending with the failing attempt, no later event, normal return.", note="LLVM backend not buildable here and excluded.", ref="§3 C08"),
}

NOT_YET = {
}

def main():
    checks = []
    for pid, c in sorted(CHECKS.items()):
        checks.append({
            "property_id": pid,
            "quick_cmd": f"./check {pid} quick",
            "thorough_cmd": f"./check {pid} thorough",
            "evidence_file": f"/verif/evidence/{pid}.json",
            "replay_cmd_template": "./check replay {path}",
            "engine": "mc",
            "level_claimed": {"category": c["cat"], "text": c["text"], "design_ref": c["ref"]},
            "level_note": c["note"],
            "technique": c["tech"],
        })
    props = [json.loads(l)["id"] for l in open(os.path.join(V, "properties.jsonl"))]
    na = []
    for p in props:
        if p not in CHECKS:
            na.append({"property_id": p, "reason": NOT_YET.get(p, "check not built yet in this round (planned in DESIGN.md §3); nothing is claimed for it")})
    m = {
        "version": 1,
        "setup_cmd": "./check setup",
        "hooks": {
            "guard": "cargo feature verif-hooks (hpbf)",
            "enable": "the checker crate depends on hpbf by path with features=[\"verif-hooks\"]; cargo rebuilds /repo's working tree on every ./check invocation",
            "baseline_off_cmd": "cd /repo && (cargo nextest run --workspace --no-fail-fast --test-threads 8 --offline || cargo test --workspace --no-fail-fast --offline)",
            "source_commits": ["1ada688"],
            "add_only": True,
        },
        "engines": [{
            "name": "mc",
            "path": "/verif/mc",
            "serves_properties": sorted(CHECKS),
            "kind_free_text": "hand-rolled bounded-exhaustive explorer over the real Rust objects: multi-process driver, single-threaded workers, scripted environment, instrumented allocator, reference models (refbf, refbc) in Rust",
        }],
        "checks": checks,
        "not_applicable": na,
        "notes": "All checks rebuild hpbf from /repo's working tree through the cargo path dependency. Exit 0 = held, 1 = VIOLATION line printed, 2 = machinery failure. Genuine defects repaired by fix: commits are listed in known_findings.json.",
    }
    json.dump(m, open(os.path.join(V, "MANIFEST.json"), "w"), indent=1)
    print("wrote MANIFEST.json with", len(checks), "checks,", len(na), "not_applicable")

main()
