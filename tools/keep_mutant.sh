#!/bin/bash
# usage: keep_mutant.sh <worktree dir> <seed id> <property> "<needs>" "<caught by>" "<missed by>"
set -e
wt="$1"; id="$2"; prop="$3"; needs="$4"; caught="$5"; missed="${6:-}"
d=/verif/seeded/$id
mkdir -p "$d"
cp "$wt/mutant.patch" "$d/patch.diff"
[ -f "$wt/DESCRIPTION.md" ] && cp "$wt/DESCRIPTION.md" "$d/"
for f in demo.sh examples/demo_mutant.rs tests/demo_mutant.rs demo_mutant.rs demo.bf demo.py; do
  [ -f "$wt/$f" ] && mkdir -p "$d/demo/$(dirname $f)" && cp "$wt/$f" "$d/demo/$f"
done
(cd "$wt" && git status --short | grep '^??' | awk '{print $2}' | grep -v -E '^target|mutant.patch|DESCRIPTION.md' | while read f; do [ -f "$f" ] && [ $(stat -c %s "$f") -lt 100000 ] && mkdir -p "$d/demo/$(dirname $f)" && cp "$f" "$d/demo/$f"; done) || true
python3 - "$d" "$prop" "$needs" "$caught" "$missed" <<'PY'
import json,sys
d,prop,needs,caught,missed=sys.argv[1:6]
json.dump({"property":prop,"needs_to_manifest":needs,
 "confirmed":"in the sub-agent's scratch worktree: cargo test --offline (186 unit tests + doctests) passes with the change; the demonstration fails with the change and passes without it",
 "ran":"tools/try_mutant.sh: git -C /repo apply patch.diff; ./check <Cxx> quick; git -C /repo checkout -- .",
 "caught_by":[c for c in caught.split(',') if c],"missed_by":[c for c in missed.split(',') if c]}, open(d+"/meta.json","w"), indent=1)
PY
git -C /repo worktree remove --force "$wt"
echo kept $id
