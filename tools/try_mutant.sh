#!/bin/bash
# usage: try_mutant.sh <patch file> <check> [<check>...]   -- applies the patch to /repo, runs the quick checks, reverts
set -u
patch="$1"; shift
cd /repo || exit 2
if ! git diff --quiet; then echo "repo dirty"; exit 2; fi
if ! git apply "$patch"; then echo "PATCH DOES NOT APPLY"; exit 2; fi
trap 'git -C /repo checkout -- .' EXIT INT TERM
for c in "$@"; do
  tier=quick
  case "$c" in *:t) tier=thorough; c="${c%:t}";; esac
  out=$(cd /verif && timeout 900 ./check "$c" $tier 2>&1)
  rc=$?
  nv=$(echo "$out" | grep -c "^VIOLATION")
  echo "== $c $tier exit=$rc violations_printed=$nv"
  echo "$out" | grep -E "^VIOLATION|MACHINERY|KNOWN" | head -3
done
git checkout -- .
# restore evidence of the unchanged tree later (caller reruns the checks)
