#!/bin/bash
# usage: confirm_seed.sh <worktree>   -- re-confirms a sub-agent's change in its scratch worktree:
#   patch applies to clean HEAD; repository suite passes with it; demo fails with it and passes without it.
wt="$1"; cd "$wt" || exit 2
export CARGO_TARGET_DIR="$wt/target" CARGO_NET_OFFLINE=true
demo=""
for f in demo.sh tests/demo_mutant.rs examples/demo_mutant.rs; do [ -f "$f" ] && demo="$f" && break; done
[ -z "$demo" ] && { echo "NO DEMO"; exit 2; }
run_demo() {
  case "$demo" in
    tests/*) timeout 900 cargo test --offline --test demo_mutant >/tmp/$(basename $wt).demo.log 2>&1;;
    examples/*) timeout 900 cargo run --offline --example demo_mutant >/tmp/$(basename $wt).demo.log 2>&1;;
    demo.sh) timeout 900 bash ./demo.sh >/tmp/$(basename $wt).demo.log 2>&1;;
  esac
}
git diff -- src > /tmp/$(basename $wt).cur.diff
git checkout -- src 2>/dev/null
git apply --check mutant.patch || { echo "PATCH DOES NOT APPLY TO HEAD"; exit 2; }
run_demo; rc_without=$?
git apply mutant.patch
cmp -s <(git diff -- src) /tmp/$(basename $wt).cur.diff || echo "note: mutant.patch differs from the tree the agent left"
{ timeout 1500 cargo test --offline --lib --bins && timeout 900 cargo test --offline --doc; } >/tmp/$(basename $wt).suite.log 2>&1; rc_suite=$?
passed=$(grep -h "^test result" /tmp/$(basename $wt).suite.log | tr '\n' ' ')
run_demo; rc_with=$?
echo "$(basename $wt): suite_rc=$rc_suite demo_without_rc=$rc_without demo_with_rc=$rc_with | $passed"
if [ $rc_suite -eq 0 ] && [ $rc_without -eq 0 ] && [ $rc_with -ne 0 ]; then echo "CONFIRMED $(basename $wt)"; else echo "NOT CONFIRMED $(basename $wt)"; fi
