#!/usr/bin/env python3
"""Print the markdown table of /verif/seeded (used for DESIGN.md §7)."""
import json, glob, os
rows = []
for d in sorted(glob.glob(os.path.join(os.path.dirname(os.path.dirname(os.path.abspath(__file__))), "seeded", "*"))):
    m = json.load(open(os.path.join(d, "meta.json")))
    files = [l[4:].strip() for l in open(os.path.join(d, "patch.diff")) if l.startswith("+++ ")]
    files = ", ".join(sorted(set(f[2:] if f.startswith("b/") else f for f in files)))
    rows.append((os.path.basename(d), m["property"], files, m["needs_to_manifest"], ", ".join(m["caught_by"]), ", ".join(m.get("missed_by", []))))
print("| seed | property | file | needs, in order to manifest | reported by (quick) | quiet (quick) |")
print("|---|---|---|---|---|---|")
for r in rows:
    print("| " + " | ".join(x.replace("|", "\\|") for x in r) + " |")
