//! Program spaces (DESIGN §2.3). Every space is enumerated completely, in a fixed order,
//! simplest first; nothing is sampled.

/// A(L): every bracket-balanced string over `+-<>.,[]` of length <= L, by length then
/// lexicographically in that alphabet order. Calls `f(index, program)`.
pub fn space_a(max_len: usize, f: &mut dyn FnMut(u64, &[u8])) -> u64 {
    const AL: &[u8] = b"+-<>.,[]";
    fn rec(buf: &mut Vec<u8>, len: usize, depth: usize, idx: &mut u64, f: &mut dyn FnMut(u64, &[u8])) {
        if buf.len() == len {
            if depth == 0 {
                f(*idx, buf);
                *idx += 1;
            }
            return;
        }
        let remaining = len - buf.len();
        for &c in AL {
            match c {
                b'[' => {
                    if depth + 1 <= remaining - 1 {
                        buf.push(c);
                        rec(buf, len, depth + 1, idx, f);
                        buf.pop();
                    }
                }
                b']' => {
                    if depth > 0 {
                        buf.push(c);
                        rec(buf, len, depth - 1, idx, f);
                        buf.pop();
                    }
                }
                _ => {
                    if depth <= remaining - 1 {
                        buf.push(c);
                        rec(buf, len, depth, idx, f);
                        buf.pop();
                    }
                }
            }
        }
    }
    let mut idx = 0u64;
    let mut buf = Vec::new();
    for len in 0..=max_len {
        rec(&mut buf, len, 0, &mut idx, f);
    }
    idx
}

/// B(k): every balanced sequence of <= k tokens from a list of Brainfuck idioms.
pub const B_TOKENS: &[&str] = &[
    "+", "-", ">", "<", ",", ".", "[-]", "[->+<]", "[-<+>]", "[->+>+<<]", "[>]", "[<]", "[", "]",
];

pub fn space_b(max_tokens: usize, f: &mut dyn FnMut(u64, &[u8])) -> u64 {
    space_tokens(B_TOKENS, max_tokens, f)
}

/// B'(k): the same over a reduced token set, two tokens deeper (constants and clears around and
/// inside loops: values created before a loop and used in it).
pub const B2_TOKENS: &[&str] = &["+", "-", ">", "<", ".", "[-]", "[", "]"];

pub fn space_b2(max_tokens: usize, f: &mut dyn FnMut(u64, &[u8])) -> u64 {
    space_tokens(B2_TOKENS, max_tokens, f)
}

pub fn space_tokens(tokens: &[&str], max_tokens: usize, f: &mut dyn FnMut(u64, &[u8])) -> u64 {
    fn rec(tokens: &[&str], buf: &mut Vec<u8>, left: usize, depth: usize, idx: &mut u64, f: &mut dyn FnMut(u64, &[u8])) {
        if left == 0 {
            if depth == 0 {
                f(*idx, buf);
                *idx += 1;
            }
            return;
        }
        for t in tokens {
            let l = buf.len();
            match *t {
                "[" => {
                    if depth + 1 <= left - 1 {
                        buf.extend_from_slice(t.as_bytes());
                        rec(tokens, buf, left - 1, depth + 1, idx, f);
                    }
                }
                "]" => {
                    if depth > 0 {
                        buf.extend_from_slice(t.as_bytes());
                        rec(tokens, buf, left - 1, depth - 1, idx, f);
                    }
                }
                _ => {
                    if depth <= left - 1 {
                        buf.extend_from_slice(t.as_bytes());
                        rec(tokens, buf, left - 1, depth, idx, f);
                    }
                }
            }
            buf.truncate(l);
        }
    }
    let mut idx = 0u64;
    let mut buf = Vec::new();
    for n in 0..=max_tokens {
        rec(tokens, &mut buf, n, 0, &mut idx, f);
    }
    idx
}

// ---------------------------------------------------------------------------------------------
// S: statement language over variables a,b,c (cells 0..2), scratch cell 3.
// Every statement starts and ends with the pointer on cell 0.

#[derive(Clone, Copy, PartialEq, Eq, Debug)]
pub enum Stmt {
    Inc(u8),
    Dec(u8),
    Zero(u8),
    Out(u8),
    In(u8),
    /// x += y, y cleared
    AddD(u8, u8),
    /// x += y, y kept (through scratch)
    AddP(u8, u8),
    /// x = y (y kept)
    Copy(u8, u8),
    /// x += 2y, y cleared
    Add2(u8, u8),
    /// x -= y, y cleared
    SubD(u8, u8),
    /// x += 3y, y cleared
    Add3(u8, u8),
    /// x += y*z, y cleared, z kept (through scratch)
    Mul(u8, u8, u8),
    /// x += y*y, y cleared (through both scratch cells)
    Sq(u8, u8),
}

fn go(out: &mut Vec<u8>, from: i32, to: i32) {
    let c = if to > from { b'>' } else { b'<' };
    for _ in 0..(to - from).abs() {
        out.push(c);
    }
}

const SCRATCH: i32 = 3;

impl Stmt {
    pub fn emit(self, out: &mut Vec<u8>) {
        match self {
            Stmt::Inc(x) => {
                go(out, 0, x as i32);
                out.push(b'+');
                go(out, x as i32, 0);
            }
            Stmt::Dec(x) => {
                go(out, 0, x as i32);
                out.push(b'-');
                go(out, x as i32, 0);
            }
            Stmt::Zero(x) => {
                go(out, 0, x as i32);
                out.extend_from_slice(b"[-]");
                go(out, x as i32, 0);
            }
            Stmt::Out(x) => {
                go(out, 0, x as i32);
                out.push(b'.');
                go(out, x as i32, 0);
            }
            Stmt::In(x) => {
                go(out, 0, x as i32);
                out.push(b',');
                go(out, x as i32, 0);
            }
            Stmt::AddD(x, y) | Stmt::Add2(x, y) | Stmt::SubD(x, y) | Stmt::Add3(x, y) => {
                let (x, y) = (x as i32, y as i32);
                go(out, 0, y);
                out.extend_from_slice(b"[-");
                go(out, y, x);
                match self {
                    Stmt::AddD(..) => out.push(b'+'),
                    Stmt::Add2(..) => out.extend_from_slice(b"++"),
                    Stmt::Add3(..) => out.extend_from_slice(b"+++"),
                    _ => out.push(b'-'),
                }
                go(out, x, y);
                out.push(b']');
                go(out, y, 0);
            }
            Stmt::AddP(x, y) => {
                let (x, y) = (x as i32, y as i32);
                go(out, 0, y);
                out.extend_from_slice(b"[-");
                go(out, y, x);
                out.push(b'+');
                go(out, x, SCRATCH);
                out.push(b'+');
                go(out, SCRATCH, y);
                out.push(b']');
                go(out, y, SCRATCH);
                out.extend_from_slice(b"[-");
                go(out, SCRATCH, y);
                out.push(b'+');
                go(out, y, SCRATCH);
                out.push(b']');
                go(out, SCRATCH, 0);
            }
            Stmt::Copy(x, y) => {
                Stmt::Zero(x).emit(out);
                Stmt::AddP(x, y).emit(out);
            }
            Stmt::Mul(x, y, z) => {
                let (x, y, z) = (x as i32, y as i32, z as i32);
                go(out, 0, y);
                out.extend_from_slice(b"[-");
                go(out, y, z);
                out.extend_from_slice(b"[-");
                go(out, z, x);
                out.push(b'+');
                go(out, x, SCRATCH);
                out.push(b'+');
                go(out, SCRATCH, z);
                out.push(b']');
                go(out, z, SCRATCH);
                out.extend_from_slice(b"[-");
                go(out, SCRATCH, z);
                out.push(b'+');
                go(out, z, SCRATCH);
                out.push(b']');
                go(out, SCRATCH, y);
                out.push(b']');
                go(out, y, 0);
            }
            Stmt::Sq(x, y) => {
                let (x, y) = (x as i32, y as i32);
                let (t1, t2) = (SCRATCH, SCRATCH + 1);
                // t1 = y (y kept through t2)
                go(out, 0, y);
                out.extend_from_slice(b"[-");
                go(out, y, t1);
                out.push(b'+');
                go(out, t1, t2);
                out.push(b'+');
                go(out, t2, y);
                out.push(b']');
                go(out, y, t2);
                out.extend_from_slice(b"[-");
                go(out, t2, y);
                out.push(b'+');
                go(out, y, t2);
                out.push(b']');
                // for each unit of y: x += t1 (t1 kept through t2)
                go(out, t2, y);
                out.extend_from_slice(b"[-");
                go(out, y, t1);
                out.extend_from_slice(b"[-");
                go(out, t1, x);
                out.push(b'+');
                go(out, x, t2);
                out.push(b'+');
                go(out, t2, t1);
                out.push(b']');
                go(out, t1, t2);
                out.extend_from_slice(b"[-");
                go(out, t2, t1);
                out.push(b'+');
                go(out, t1, t2);
                out.push(b']');
                go(out, t2, y);
                out.push(b']');
                go(out, y, t1);
                out.extend_from_slice(b"[-]");
                go(out, t1, 0);
            }
        }
    }
}

pub fn all_stmts() -> Vec<Stmt> {
    let mut v = Vec::new();
    for x in 0..3u8 {
        v.push(Stmt::Inc(x));
    }
    for x in 0..3u8 {
        v.push(Stmt::Dec(x));
    }
    for x in 0..3u8 {
        v.push(Stmt::Zero(x));
    }
    for x in 0..3u8 {
        v.push(Stmt::Out(x));
    }
    for x in 0..3u8 {
        v.push(Stmt::In(x));
    }
    for x in 0..3u8 {
        for y in 0..3u8 {
            if x != y {
                v.push(Stmt::AddD(x, y));
            }
        }
    }
    for x in 0..3u8 {
        for y in 0..3u8 {
            if x != y {
                v.push(Stmt::AddP(x, y));
            }
        }
    }
    for x in 0..3u8 {
        for y in 0..3u8 {
            if x != y {
                v.push(Stmt::Copy(x, y));
            }
        }
    }
    for x in 0..3u8 {
        for y in 0..3u8 {
            if x != y {
                v.push(Stmt::Add2(x, y));
            }
        }
    }
    for x in 0..3u8 {
        for y in 0..3u8 {
            if x != y {
                v.push(Stmt::SubD(x, y));
            }
        }
    }
    for x in 0..3u8 {
        for y in 0..3u8 {
            if x != y {
                v.push(Stmt::Add3(x, y));
            }
        }
    }
    for x in 0..3u8 {
        for y in 0..3u8 {
            if x != y {
                v.push(Stmt::Sq(x, y));
                let z = 3 - x - y;
                v.push(Stmt::Mul(x, y, z));
            }
        }
    }
    v
}

/// Loop shapes around a body, all on variable `x` (pointer on cell 0 before and after).
#[derive(Clone, Copy, PartialEq, Eq, Debug)]
pub enum Shape {
    /// `[- body ]`
    DecFirst,
    /// `[ body - ]`
    DecLast,
    /// `[ body ]`
    While,
    /// `[ body [-] ]`
    If,
}

pub const SHAPES: [Shape; 4] = [Shape::DecFirst, Shape::DecLast, Shape::While, Shape::If];

pub fn emit_loop(out: &mut Vec<u8>, shape: Shape, x: u8, body: &[u8]) {
    let x = x as i32;
    go(out, 0, x);
    out.push(b'[');
    if shape == Shape::DecFirst {
        out.push(b'-');
    }
    go(out, x, 0);
    out.extend_from_slice(body);
    go(out, 0, x);
    match shape {
        Shape::DecLast => out.push(b'-'),
        Shape::If => out.extend_from_slice(b"[-]"),
        _ => {}
    }
    out.push(b']');
    go(out, x, 0);
}

pub const PREFIXES: [&str; 3] = [
    // all inputs
    ",>,>,<<",
    // all constants
    "++++>+>++<<",
    // mixed
    "+++>,>++<<",
];
pub const EPILOGUE: &str = ".>.>.>.>.";

/// S(1,k): prefix · loop(shape, var a) around every body of <= k statements · epilogue.
/// `inner`: additionally S(2,·) — bodies may contain one inner loop (on b or c) around <= `inner`
/// statements.
pub fn space_s(k: usize, inner: usize, f: &mut dyn FnMut(u64, &[u8])) -> u64 {
    space_s_range(0, k, inner, f)
}

/// Bodies of `min_n..=k` pieces only.
pub fn space_s_range(min_n: usize, k: usize, inner: usize, f: &mut dyn FnMut(u64, &[u8])) -> u64 {
    let stmts = all_stmts();
    let mut pieces: Vec<Vec<u8>> = Vec::new();
    for s in &stmts {
        let mut v = Vec::new();
        s.emit(&mut v);
        pieces.push(v);
    }
    let simple = pieces.len();
    if inner > 0 {
        // inner loops as additional body pieces
        let mut bodies: Vec<Vec<u8>> = vec![Vec::new()];
        let mut layer: Vec<Vec<u8>> = vec![Vec::new()];
        for _ in 0..inner {
            let mut next = Vec::new();
            for b in &layer {
                for p in &pieces[..simple] {
                    let mut n = b.clone();
                    n.extend_from_slice(p);
                    next.push(n);
                }
            }
            bodies.extend(next.iter().cloned());
            layer = next;
        }
        for shape in SHAPES {
            for x in 1..3u8 {
                for b in &bodies {
                    let mut v = Vec::new();
                    emit_loop(&mut v, shape, x, b);
                    pieces.push(v);
                }
            }
        }
    }
    let mut idx = 0u64;
    let mut prog = Vec::new();
    // bodies of exactly n pieces, n = 0..=k; at most one inner loop per body
    fn rec(
        pieces: &[Vec<u8>],
        simple: usize,
        n: usize,
        has_inner: bool,
        body: &mut Vec<u8>,
        idx: &mut u64,
        prog: &mut Vec<u8>,
        f: &mut dyn FnMut(u64, &[u8]),
    ) {
        if n == 0 {
            for prefix in PREFIXES {
                for shape in SHAPES {
                    prog.clear();
                    prog.extend_from_slice(prefix.as_bytes());
                    emit_loop(prog, shape, 0, body);
                    prog.extend_from_slice(EPILOGUE.as_bytes());
                    f(*idx, prog);
                    *idx += 1;
                }
            }
            return;
        }
        for (i, p) in pieces.iter().enumerate() {
            let is_inner = i >= simple;
            if is_inner && has_inner {
                continue;
            }
            let l = body.len();
            body.extend_from_slice(p);
            rec(pieces, simple, n - 1, has_inner || is_inner, body, idx, prog, f);
            body.truncate(l);
        }
    }
    let mut body = Vec::new();
    for n in min_n..=k {
        rec(&pieces, simple, n, false, &mut body, &mut idx, &mut prog, f);
    }
    idx
}

// ---------------------------------------------------------------------------------------------
// W: wide simultaneous assignments (DESIGN §2.3): k data cells rotated inside a counted loop, so
// that one loop iteration becomes a single simultaneous assignment with up to k+1 live values
// (> 11 of them => stack temporaries in the JIT). Layout: c0 counter, c1 carrier, c2.. data.

pub const W_FORMS: [&str; 11] = [
    "[-<+>]",            // copy (default)
    "[-<++>]",           // x2
    "[-<+++>]",          // x3
    "[-<->]",            // negate
    "[-<+<+>>]",         // shared: also added to the cell two to the left
    "[-<+<+>>]<+++++>",  // shared + constant
    "[-<+>]<+++++>",     // + constant
    "[---<+>]",          // divide by 3 (trip count through the 2-adic inverse: huge immediates at 64 bit)
    "*",                 // product with the right neighbour (kept): d[j-1] += d[j]*d[j+1], via the scratch cell
    "K",                 // copy, then add the loop-invariant wide constant 2^37 (wide immediate at 64 bit)
    "*K",                // product with the right neighbour, then add the wide constant: (a*b) + imm64
];

pub const W_SCRIPTS: [&[u8]; 3] = [
    &[3, 5, 7, 11, 13, 17, 19, 23, 29, 31, 37, 41, 43, 47, 53, 59, 61, 67],
    &[255, 128, 2, 1, 254, 127, 129, 3, 64, 192, 85, 170, 250, 6, 9, 100, 200, 33],
    &[3, 6, 9, 12, 15, 18, 21, 24, 27, 30, 33, 36, 39, 42, 45, 48, 51, 54],
];

pub fn w_program(k: usize, forms: &[usize]) -> Vec<u8> {
    // forms[i] is the form used when moving data cell i+1 into data cell i (i = 0..k-1)
    let mut p = Vec::new();
    let has_div = forms.iter().any(|&f| f == 7);
    p.extend_from_slice(if has_div { b"+" } else { b"++" });
    p.extend_from_slice(b">>");
    for _ in 0..k {
        p.extend_from_slice(b",>");
    }
    if forms.iter().any(|&f| W_FORMS[f] == "K" || W_FORMS[f] == "*K") {
        // the wide constant 2*16^9 = 2^37, built once before the loop by constant-foldable loops in cells k+4 / k+5
        p.extend_from_slice(b">>++");
        for r in 0..9 {
            if r % 2 == 0 {
                p.extend_from_slice(b"[>++++++++++++++++<-]>");
            } else {
                p.extend_from_slice(b"[<++++++++++++++++>-]<");
            }
        }
        // nine rounds end on cell k+5; +3 makes a lost constant visible in the low byte that `.` prints;
        // back to cell k+2
        p.extend_from_slice(b"+++<<<");
    }
    for _ in 0..k + 2 {
        p.push(b'<');
    }
    // loop
    p.extend_from_slice(b"[->>[-<+>]");
    let scratch = (k + 2) as i32;
    for (j, f) in forms.iter().take(k - 1).enumerate() {
        p.push(b'>');
        let a = (j + 3) as i32; // absolute position of the data cell being moved
        let form = W_FORMS[*f];
        let kc = (k + 5) as i32;
        if form == "*" || form == "*K" {
            // multiplier: right neighbour, or the carrier for the last cell
            let m = if j + 2 < k { a + 1 } else { 1 };
            p.extend_from_slice(b"[-");
            go(&mut p, a, m);
            p.extend_from_slice(b"[-");
            go(&mut p, m, a - 1);
            p.push(b'+');
            go(&mut p, a - 1, scratch);
            p.push(b'+');
            go(&mut p, scratch, m);
            p.push(b']');
            go(&mut p, m, scratch);
            p.extend_from_slice(b"[-");
            go(&mut p, scratch, m);
            p.push(b'+');
            go(&mut p, m, scratch);
            p.push(b']');
            go(&mut p, scratch, a);
            p.push(b']');
        }
        if form == "K" {
            p.extend_from_slice(b"[-<+>]");
        }
        if form == "K" || form == "*K" {
            // add the loop-invariant wide constant kept in cell k+5 (preserved through the scratch cell)
            go(&mut p, a, kc);
            p.extend_from_slice(b"[-");
            go(&mut p, kc, a - 1);
            p.push(b'+');
            go(&mut p, a - 1, scratch);
            p.push(b'+');
            go(&mut p, scratch, kc);
            p.push(b']');
            go(&mut p, kc, scratch);
            p.extend_from_slice(b"[-");
            go(&mut p, scratch, kc);
            p.push(b'+');
            go(&mut p, kc, scratch);
            p.push(b']');
            go(&mut p, scratch, a);
        }
        match form {
            "*" | "K" | "*K" => {}
            other => p.extend_from_slice(other.as_bytes()),
        }
    }
    // pointer is on data cell k-1 (absolute k+1); go back to the carrier (absolute 1)
    for _ in 0..k {
        p.push(b'<');
    }
    p.extend_from_slice(b"[-");
    for _ in 0..k {
        p.push(b'>');
    }
    p.push(b'+');
    for _ in 0..k {
        p.push(b'<');
    }
    p.extend_from_slice(b"]<]>>");
    for _ in 0..k {
        p.extend_from_slice(b".>");
    }
    p
}

/// W with at most `max_dev` deviations from the default form, for the given sizes.
pub fn space_w_sized(ks: &[usize], max_dev: usize, f: &mut dyn FnMut(u64, &[u8])) -> u64 {
    let mut idx = 0u64;
    for &k in ks {
        let n = k - 1;
        let mut forms = vec![0usize; n.max(1)];
        f(idx, &w_program(k, &forms));
        idx += 1;
        // uniform and alternating assignments: every position deviates (shared sub-expressions
        // plus constants on many live values at once)
        for a in 1..W_FORMS.len() {
            let u = vec![a; n.max(1)];
            f(idx, &w_program(k, &u));
            idx += 1;
            for b in 0..W_FORMS.len() {
                if b != a {
                    let alt: Vec<usize> = (0..n.max(1)).map(|i| if i % 2 == 0 { a } else { b }).collect();
                    f(idx, &w_program(k, &alt));
                    idx += 1;
                }
            }
        }
        if max_dev >= 1 {
            for i in 0..n {
                for a in 1..W_FORMS.len() {
                    forms[i] = a;
                    f(idx, &w_program(k, &forms));
                    idx += 1;
                    if max_dev >= 2 {
                        for j in i + 1..n {
                            for b in 1..W_FORMS.len() {
                                forms[j] = b;
                                f(idx, &w_program(k, &forms));
                                idx += 1;
                            }
                            forms[j] = 0;
                        }
                    }
                }
                forms[i] = 0;
            }
        }
    }
    idx
}

pub fn space_w(full: bool, f: &mut dyn FnMut(u64, &[u8])) -> u64 {
    if full {
        space_w_sized(&[2, 3, 5, 8, 10, 11, 12, 13, 14, 15, 16], 2, f)
    } else {
        space_w_sized(&[2, 3, 11, 12, 13, 14], 1, f)
    }
}

// ---------------------------------------------------------------------------------------------
// P: prefix chains. k data cells; one loop iteration runs the links d[i+1] (op)= d[i] for i = 1..k-1 in
// order (d[i] preserved through a scratch cell), so the new value of every cell is an expression over
// all cells before it. The optimiser turns the body into one simultaneous assignment whose common
// sub-expressions (partial sums / products) are long-lived temporaries that are both stored and
// used again: the JIT's temp-from-temp forms with stack temporaries (add S,S,M / add M,S,i / mul S,S,i ...).
// Layout: c0 counter, c1..ck data, c(k+1), c(k+2) scratch.

pub const P_SMALL_SCRIPT: &[u8] = &[2, 1, 3, 1, 2, 1, 1, 3, 2, 1, 1, 2, 3, 1, 2, 1, 1, 2, 1, 3];

pub const P_LINKS: [&str; 10] = ["add", "sub", "add+5", "add3x", "mul", "rsub", "add-k", "mulk", "add+K", "mul+K"];

/// d += [kc] (the loop-invariant wide constant, preserved through s1); pointer on a before and after
fn add_wide(p: &mut Vec<u8>, a: i32, d: i32, s1: i32, kc: i32) {
    go(p, a, kc);
    p.extend_from_slice(b"[-");
    go(p, kc, d);
    p.push(b'+');
    go(p, d, s1);
    p.push(b'+');
    go(p, s1, kc);
    p.push(b']');
    go(p, kc, s1);
    p.extend_from_slice(b"[-");
    go(p, s1, kc);
    p.push(b'+');
    go(p, kc, s1);
    p.push(b']');
    go(p, s1, a);
}

fn p_link(p: &mut Vec<u8>, link: usize, a: i32, s1: i32, s2: i32, kc: i32) {
    // pointer is on cell a (source); the destination is a+1; returns with the pointer on a
    let d = a + 1;
    let copy_back = |p: &mut Vec<u8>| {
        go(p, a, s1);
        p.extend_from_slice(b"[-");
        go(p, s1, a);
        p.push(b'+');
        go(p, a, s1);
        p.push(b']');
        go(p, s1, a);
    };
    match P_LINKS[link] {
        "add" | "add+5" | "add3x" | "sub" | "add-k" | "add+K" => {
            p.extend_from_slice(b"[-");
            go(p, a, d);
            match P_LINKS[link] {
                "sub" => p.push(b'-'),
                "add3x" => p.extend_from_slice(b"+++"),
                _ => p.push(b'+'),
            }
            go(p, d, s1);
            p.push(b'+');
            go(p, s1, a);
            p.push(b']');
            copy_back(p);
            if P_LINKS[link] == "add+5" {
                go(p, a, d);
                p.extend_from_slice(b"+++++");
                go(p, d, a);
            }
            if P_LINKS[link] == "add-k" {
                go(p, a, d);
                p.extend_from_slice(b"-------");
                go(p, d, a);
            }
            if P_LINKS[link] == "add+K" {
                add_wide(p, a, d, s1, kc);
            }
        }
        "rsub" => {
            // d = a - d : move d to s2, then d += a (kept), d -= s2
            go(p, a, d);
            p.extend_from_slice(b"[-");
            go(p, d, s2);
            p.push(b'+');
            go(p, s2, d);
            p.push(b']');
            go(p, d, a);
            p.extend_from_slice(b"[-");
            go(p, a, d);
            p.push(b'+');
            go(p, d, s1);
            p.push(b'+');
            go(p, s1, a);
            p.push(b']');
            copy_back(p);
            go(p, a, s2);
            p.extend_from_slice(b"[-");
            go(p, s2, d);
            p.push(b'-');
            go(p, d, s2);
            p.push(b']');
            go(p, s2, a);
        }
        "mul" | "mulk" | "mul+K" => {
            // d = d * a (a kept): move d to s2; for each unit of s2: d += a (a preserved through s1)
            go(p, a, d);
            p.extend_from_slice(b"[-");
            go(p, d, s2);
            p.push(b'+');
            go(p, s2, d);
            p.push(b']');
            go(p, d, s2);
            p.extend_from_slice(b"[-");
            go(p, s2, a);
            p.extend_from_slice(b"[-");
            go(p, a, d);
            p.push(b'+');
            go(p, d, s1);
            p.push(b'+');
            go(p, s1, a);
            p.push(b']');
            copy_back(p);
            go(p, a, s2);
            p.push(b']');
            go(p, s2, a);
            if P_LINKS[link] == "mulk" {
                // then d = 3*d through s2
                go(p, a, d);
                p.extend_from_slice(b"[-");
                go(p, d, s2);
                p.extend_from_slice(b"+++");
                go(p, s2, d);
                p.push(b']');
                go(p, d, s2);
                p.extend_from_slice(b"[-");
                go(p, s2, d);
                p.push(b'+');
                go(p, d, s2);
                p.push(b']');
                go(p, s2, a);
            }
            if P_LINKS[link] == "mul+K" {
                add_wide(p, a, d, s1, kc);
            }
        }
        _ => unreachable!(),
    }
}

pub fn p_program(k: usize, links: &[usize], iters: usize, print_inside: bool) -> Vec<u8> {
    let mut p = Vec::new();
    for _ in 0..iters {
        p.push(b'+');
    }
    for _ in 0..k {
        p.extend_from_slice(b">,");
    }
    let (s1, s2, kc) = ((k + 1) as i32, (k + 2) as i32, (k + 3) as i32);
    if links.iter().take(k - 1).any(|&l| P_LINKS[l].ends_with('K')) {
        // the wide constant 2*16^9 = 2^37 in cell k+3, built by constant-foldable loops in cells k+3 / k+4
        go(&mut p, k as i32, kc);
        p.extend_from_slice(b"++");
        for r in 0..9 {
            if r % 2 == 0 {
                p.extend_from_slice(b"[>++++++++++++++++<-]>");
            } else {
                p.extend_from_slice(b"[<++++++++++++++++>-]<");
            }
        }
        // nine rounds end on cell k+4: move the value back into k+3; +3 makes a lost constant visible in the
        // low byte that `.` prints
        p.extend_from_slice(b"[-<+>]<+++");
        go(&mut p, kc, k as i32);
    }
    for _ in 0..k {
        p.push(b'<');
    }
    p.extend_from_slice(b"[-");
    p.push(b'>');
    for (i, l) in links.iter().take(k - 1).enumerate() {
        let a = (i + 1) as i32;
        p_link(&mut p, *l, a, s1, s2, kc);
        if print_inside && i == k / 2 {
            p.push(b'.');
        }
        p.push(b'>');
    }
    for _ in 0..k {
        p.push(b'<');
    }
    p.push(b']');
    for _ in 0..k {
        p.extend_from_slice(b">.");
    }
    p
}

/// P: uniform chains, every single deviation (and, when `full`, every pair of deviations) from the
/// uniform `add` and `mul` chains, for the given sizes.
pub fn space_p(full: bool, f: &mut dyn FnMut(u64, &[u8])) -> u64 {
    let ks: &[usize] = if full { &[3, 6, 10, 12, 13, 14, 15, 16, 18] } else { &[3, 12, 14, 16] };
    let n = P_LINKS.len();
    let mut idx = 0u64;
    for &k in ks {
        let m = k - 1;
        for base in 0..n {
            let mut links = vec![base; m];
            for inside in [false, true] {
                f(idx, &p_program(k, &links, 2, inside));
                idx += 1;
            }
            f(idx, &p_program(k, &links, 1, false));
            idx += 1;
            if base != 0 && base != 4 && !full {
                continue;
            }
            for i in 0..m {
                for a in 0..n {
                    if a == base {
                        continue;
                    }
                    links[i] = a;
                    f(idx, &p_program(k, &links, 2, false));
                    idx += 1;
                    // pairs of deviations: from the add and mul chains, at the sizes around the register limit
                    if full && (base == 0 || base == 4) && matches!(k, 3 | 6 | 12 | 13 | 14 | 16) {
                        for j in i + 1..m {
                            for b in 0..n {
                                if b == base {
                                    continue;
                                }
                                links[j] = b;
                                f(idx, &p_program(k, &links, 2, false));
                                idx += 1;
                            }
                            links[j] = base;
                        }
                    }
                }
                links[i] = base;
            }
        }
    }
    idx
}

// ---------------------------------------------------------------------------------------------
// M: memory walkers (DESIGN §2.3): programs that move far in either direction with dynamic
// (loop-carried) moves, scan over runs laid down before, and revisit cells after several
// reallocations.

fn rep(out: &mut Vec<u8>, c: u8, n: usize) {
    for _ in 0..n {
        out.push(c);
    }
}

/// Walk `k` hops of `s` cells in direction `dir` (b'>' or b'<') carrying the counter along.
pub fn walk(out: &mut Vec<u8>, k: usize, s: usize, dir: u8) {
    let back = if dir == b'>' { b'<' } else { b'>' };
    rep(out, b'+', k);
    out.extend_from_slice(b"[-[-");
    rep(out, dir, s);
    out.push(b'+');
    rep(out, back, s);
    out.push(b']');
    rep(out, dir, s);
    out.push(b']');
}

pub fn space_m(full: bool) -> Vec<Vec<u8>> {
    let mut v = Vec::new();
    let hops: Vec<(usize, usize)> = {
        let mut h = Vec::new();
        for n in 1..=12 {
            h.push((n, 1));
        }
        for n in [13, 17, 25, 33, 40] {
            h.push((n, 1));
        }
        h.extend_from_slice(&[(5, 20), (10, 100), (7, 1)]);
        if full {
            for n in 14..=40 {
                h.push((n, 1));
            }
            h.extend_from_slice(&[(50, 100), (25, 200), (3, 3000), (40, 25)]);
        }
        h
    };
    for &(k, s) in &hops {
        for dir in [b'>', b'<'] {
            let back = if dir == b'>' { b'<' } else { b'>' };
            // 1. walk, write, print
            let mut p = Vec::new();
            walk(&mut p, k, s, dir);
            p.extend_from_slice(b"+++.");
            v.push(p);
            // 2. mark next to the origin, walk away, write, walk back, print the mark and the far cell again
            let mut p = Vec::new();
            p.push(back);
            p.extend_from_slice(b"+++++");
            p.push(dir);
            walk(&mut p, k, s, dir);
            p.extend_from_slice(b"++.");
            p.push(dir);
            walk(&mut p, k, s, back);
            p.push(back);
            p.push(back);
            p.push(b'.');
            p.push(dir);
            walk(&mut p, k, s, dir);
            p.push(b'.');
            v.push(p);
        }
    }
    // 3. scans over runs laid down before (both directions), with a zero barrier next to the counter
    let runs: Vec<usize> = if full { vec![1, 2, 3, 5, 8, 13, 21, 40, 100, 400, 1000] } else { vec![1, 2, 3, 5, 8, 13, 40, 100] };
    for &k in &runs {
        for dir in [b'>', b'<'] {
            let back = if dir == b'>' { b'<' } else { b'>' };
            let mut p = Vec::new();
            rep(&mut p, b'+', k.min(255));
            if k > 255 {
                // counter = 4 * 250 style products are not needed: use nested loops for large runs
                p.clear();
                p.push(back);
                rep(&mut p, b'+', k / 100);
                p.extend_from_slice(b"[-");
                p.push(dir);
                rep(&mut p, b'+', 100);
                p.push(back);
                p.push(b']');
                p.push(dir);
            }
            p.extend_from_slice(b"[-");
            p.push(dir);
            p.push(dir);
            p.push(b'[');
            p.push(dir);
            p.extend_from_slice(b"]+[");
            p.push(back);
            p.push(b']');
            p.push(back);
            p.push(b']');
            p.push(dir);
            p.push(dir);
            p.push(b'[');
            p.push(dir);
            p.push(b']');
            p.push(back);
            p.extend_from_slice(b".[");
            p.push(back);
            p.push(b']');
            p.push(dir);
            p.push(b'.');
            v.push(p);
        }
    }
    // 3b. strided scans over input values, and stride-1 scans over cells whose low byte is zero
    for stride in [2usize, 3] {
        for dir in [b'<', b'>'] {
            let back = if dir == b'<' { b'>' } else { b'<' };
            // lay down 4 values `stride` cells apart walking `back`-wards, then scan home in direction `dir`
            let mut p = Vec::new();
            for i in 0..4 {
                p.push(b',');
                if i < 3 {
                    rep(&mut p, back, stride);
                }
            }
            p.push(b'[');
            rep(&mut p, dir, stride);
            p.push(b']');
            for _ in 0..5 {
                rep(&mut p, back, stride);
                p.push(b'.');
            }
            v.push(p);
        }
    }
    for dir in [b'<', b'>'] {
        let back = if dir == b'<' { b'>' } else { b'<' };
        // values a*256 (zero low byte on wide cells), one cell apart, with a scratch cell two further
        let mut p = Vec::new();
        for _ in 0..3 {
            p.push(b',');
            // multiply by 256 through the neighbour in direction `back`
            p.extend_from_slice(b"[");
            p.push(back);
            rep(&mut p, b'+', 16);
            p.push(dir);
            p.extend_from_slice(b"-]");
            p.push(back);
            p.extend_from_slice(b"[");
            p.push(dir);
            rep(&mut p, b'+', 16);
            p.push(back);
            p.extend_from_slice(b"-]");
            // value now sits in the original cell again; step to the next cell
        }
        p.push(dir);
        p.push(b'[');
        p.push(dir);
        p.push(b']');
        p.push(back);
        p.push(b'.');
        p.push(back);
        p.push(b'.');
        p.push(dir);
        p.push(dir);
        p.push(dir);
        p.push(b'.');
        v.push(p);
    }
    // 4. zig-zag: alternate far walks so that the tape is reallocated several times in both
    // directions, leaving marks that are revisited at the end
    for &(k, s) in if full { &[(3usize, 7usize), (4, 50), (6, 400)][..] } else { &[(3usize, 7usize), (4, 50)][..] } {
        let mut p = Vec::new();
        p.extend_from_slice(b"<+>");
        let mut mult = 1;
        for round in 0..4 {
            let dir = if round % 2 == 0 { b'>' } else { b'<' };
            walk(&mut p, k * mult, s, dir);
            // leave a mark two cells further and come back one
            p.push(dir);
            p.push(dir);
            rep(&mut p, b'+', round + 2);
            p.push(b'.');
            p.push(if dir == b'>' { b'<' } else { b'>' });
            mult += 1;
        }
        // pointer is now k*s*(1-2+3-4) - ... from the origin; walk home by undoing the rounds in reverse
        for round in (0..4).rev() {
            let dir = if round % 2 == 0 { b'<' } else { b'>' };
            let fwd = if round % 2 == 0 { b'>' } else { b'<' };
            // undo "come back one" and "two further": go to the mark, print it, return to the walk end
            p.push(fwd);
            p.push(b'.');
            p.push(dir);
            p.push(dir);
            mult -= 1;
            walk(&mut p, k * mult, s, dir);
        }
        p.extend_from_slice(b"<.");
        v.push(p);
    }
    v.extend(space_t(full));
    v
}

/// T: stride loops. A loop whose body has a net pointer shift of exactly n cells (either direction),
/// executed twice, for every n around the encoding boundaries of the move (±128 bytes = 128/64/32/16
/// cells at 8/16/32/64 bit for the JIT's imm8 form, page-sized strides). Cell 0 = 1, cell ±n = 2:
/// the loop hops 0 -> n -> 2n; the three cells are printed afterwards, so a hop that lands anywhere
/// else changes the output (and, under the guard allocator, may fault).
pub fn space_t(full: bool) -> Vec<Vec<u8>> {
    let mut strides: Vec<usize> = (1..=20).collect();
    strides.extend_from_slice(&[31, 32, 33, 63, 64, 65, 127, 128, 129, 255, 256, 257]);
    if full {
        strides = (1..=300).collect();
        strides.extend_from_slice(&[511, 512, 513, 1000, 1023, 1024, 1025, 4095, 4096, 4097]);
    }
    let mut v = Vec::new();
    for &n in &strides {
        for dir in [b'>', b'<'] {
            let back = if dir == b'>' { b'<' } else { b'>' };
            for variant in 0..2 {
                let mut p = Vec::new();
                p.push(b'+');
                rep(&mut p, dir, n);
                p.extend_from_slice(b"++");
                rep(&mut p, back, n);
                p.extend_from_slice(b"[-");
                if variant == 1 {
                    // the hop split around a store, so that the move is not the whole body
                    rep(&mut p, dir, n / 2);
                    p.push(b'+');
                    rep(&mut p, dir, n - n / 2);
                } else {
                    rep(&mut p, dir, n);
                }
                p.push(b']');
                p.push(b'.');
                rep(&mut p, back, n);
                p.push(b'.');
                rep(&mut p, back, n);
                p.push(b'.');
                if variant == 1 {
                    rep(&mut p, dir, n / 2);
                    p.push(b'.');
                    rep(&mut p, dir, n);
                    p.push(b'.');
                }
                v.push(p);
            }
        }
    }
    v
}

/// Q: quotient probes. `,[-{s}>+<]>` divides an input byte by the odd step s (the optimiser closes the loop
/// through the 2-adic inverse of s); the quotient is then compared with every small constant q by a
/// zero test that prints, so wrong high bits of the quotient (invisible in the low byte) are observed.
/// Run on every single-byte input: at 8 bit every input terminates (wrap-around), at wider cells only
/// the multiples of s do (the rest are canonically out of reach and skipped).
pub fn space_q() -> Vec<Vec<u8>> {
    let mut v = Vec::new();
    for s in [3usize, 5, 7, 9, 11, 13, 15, 17, 51, 85] {
        for q in [0usize, 1, 2, 3, 5] {
            for up in [false, true] {
                let mut p = Vec::new();
                p.extend_from_slice(b",[");
                rep(&mut p, b'-', s);
                p.extend_from_slice(if up { b">+<]>" } else { b">-<]>" });
                rep(&mut p, if up { b'-' } else { b'+' }, q);
                p.extend_from_slice(b"[[-]<+.>]<.");
                v.push(p);
            }
        }
    }
    v
}

// ---------------------------------------------------------------------------------------------
// V: wide values. An input byte is shifted left by 4k bits through k constant-multiplier loops
// (closed form on optimising configurations), then used as a loop / branch condition and
// printed: cells whose low 8/16/32 bits are zero but which are not zero.

pub fn space_v() -> Vec<Vec<u8>> {
    let mut v = Vec::new();
    for k in [1usize, 2, 3, 4, 6, 7, 8, 9, 12, 15, 16] {
        let mut shl = Vec::new();
        for r in 0..k {
            if r % 2 == 0 {
                shl.extend_from_slice(b"[>++++++++++++++++<-]>");
            } else {
                shl.extend_from_slice(b"[<++++++++++++++++>-]<");
            }
        }
        // if k is odd the value ends one cell to the right
        let tails: [&[u8]; 5] = [
            b"[[-]>>+<<]>>.",            // non-zero test (while loop that clears)
            b">>+<<[>>-<<[-]]>>.",       // zero test
            b"[>>+<<[-]]>>.",            // if
            b"-[>>+<<[-]]>>.",           // decrement first, then test (borrow across the low bits)
            b".[>>+>+<<<[-]]>>.>.",      // print low byte, then a test feeding two cells
        ];
        for t in tails {
            let mut p = b",".to_vec();
            p.extend_from_slice(&shl);
            p.extend_from_slice(t);
            v.push(p);
            // a second input added into the low bits afterwards
            let mut p = b",".to_vec();
            p.extend_from_slice(&shl);
            p.extend_from_slice(b">>>>,[-<<<<+>>>>]<<<<");
            p.extend_from_slice(t);
            v.push(p);
        }
    }
    v
}

// ---------------------------------------------------------------------------------------------
// N: a loop whose body mixes pointer-moving sub-loops (scans), stationary sub-loops on the cells
// reached afterwards, plain moves and I/O. After a scan the optimiser no longer knows which cell an
// offset names: facts about the enclosing loop's condition, constants and clobbers must be dropped.

pub const N_TOKENS_SMALL: &[&str] = &["<", ">", "[>]", "[<]", "[]", ".", "+", "[-]"];
pub const N_TOKENS_FULL: &[&str] = &["<", ">", "[>]", "[<]", "[]", ".", "+", "[-]", "-", "[.]", "[>+<-]", ","];
pub const N_PREFIXES: &[&str] = &["+>+", "+>+>+<", ",>,"];

pub fn space_n(full: bool, depth: usize, f: &mut dyn FnMut(u64, &[u8])) -> u64 {
    let tokens = if full { N_TOKENS_FULL } else { N_TOKENS_SMALL };
    let mut idx = 0u64;
    let mut body: Vec<usize> = Vec::new();
    fn emit(tokens: &[&str], body: &[usize], idx: &mut u64, f: &mut dyn FnMut(u64, &[u8])) {
        for pre in N_PREFIXES {
            for suffix in ["", "."] {
                let mut p = pre.as_bytes().to_vec();
                p.push(b'[');
                for &t in body {
                    p.extend_from_slice(tokens[t].as_bytes());
                }
                p.push(b']');
                p.extend_from_slice(suffix.as_bytes());
                f(*idx, &p);
                *idx += 1;
            }
        }
    }
    fn rec(tokens: &[&str], left: usize, body: &mut Vec<usize>, idx: &mut u64, f: &mut dyn FnMut(u64, &[u8])) {
        if left == 0 {
            // only bodies with at least one pointer-moving sub-loop are interesting here
            if body.iter().any(|&t| tokens[t] == "[>]" || tokens[t] == "[<]") {
                emit(tokens, body, idx, f);
            }
            return;
        }
        for t in 0..tokens.len() {
            body.push(t);
            rec(tokens, left - 1, body, idx, f);
            body.pop();
        }
    }
    for n in 1..=depth {
        rec(tokens, n, &mut body, &mut idx, f);
    }
    idx
}

/// I: shifting ifs. An outer loop whose body is every sequence of <= `depth` tokens that contains an
/// at-most-once loop with a net pointer shift (`[>[-]]`, `[<[-]]`, `[[-]>]`): the inner block's move is
/// the last instruction before the outer loop's back edge, or is followed / preceded by I/O and stores.
/// Three prefixes (constant, two cells, two inputs) and three suffixes (nothing, print the left
/// neighbour, read and print).
pub const I_TOKENS: &[&str] = &[",", ".", "+", "-", ">", "<", "[-]", "[>[-]]", "[<[-]]", "[[-]>]"];
pub const I_PREFIXES: &[&str] = &["+", ">+<+", ",>,<"];
pub const I_SUFFIXES: &[&str] = &["", "<.", ",."];

pub fn space_i(depth: usize, f: &mut dyn FnMut(u64, &[u8])) -> u64 {
    let mut idx = 0u64;
    let mut body: Vec<usize> = Vec::new();
    fn rec(left: usize, body: &mut Vec<usize>, idx: &mut u64, f: &mut dyn FnMut(u64, &[u8])) {
        if left == 0 {
            if body.iter().any(|&t| I_TOKENS[t].len() >= 6) {
                for pre in I_PREFIXES {
                    for suf in I_SUFFIXES {
                        let mut p = pre.as_bytes().to_vec();
                        p.push(b'[');
                        for &t in body.iter() {
                            p.extend_from_slice(I_TOKENS[t].as_bytes());
                        }
                        p.push(b']');
                        p.extend_from_slice(suf.as_bytes());
                        f(*idx, &p);
                        *idx += 1;
                    }
                }
            }
            return;
        }
        for t in 0..I_TOKENS.len() {
            body.push(t);
            rec(left - 1, body, idx, f);
            body.pop();
        }
    }
    for n in 1..=depth {
        rec(n, &mut body, &mut idx, f);
    }
    idx
}

/// S3r: loops around exactly three statements from the additive subset (x+=y destructive,
/// x+=y preserving, x+=2y): cyclic dependencies between cells inside one iteration.
pub fn space_s3_reduced(f: &mut dyn FnMut(u64, &[u8])) -> u64 {
    let stmts: Vec<Stmt> = all_stmts().into_iter().filter(|s| matches!(s, Stmt::AddD(..) | Stmt::AddP(..) | Stmt::Add2(..))).collect();
    let pieces: Vec<Vec<u8>> = stmts
        .iter()
        .map(|s| {
            let mut v = Vec::new();
            s.emit(&mut v);
            v
        })
        .collect();
    let mut idx = 0u64;
    let mut prog = Vec::new();
    let mut body = Vec::new();
    for a in &pieces {
        for b in &pieces {
            for c in &pieces {
                body.clear();
                body.extend_from_slice(a);
                body.extend_from_slice(b);
                body.extend_from_slice(c);
                for prefix in PREFIXES {
                    for shape in SHAPES {
                        prog.clear();
                        prog.extend_from_slice(prefix.as_bytes());
                        emit_loop(&mut prog, shape, 0, &body);
                        prog.extend_from_slice(EPILOGUE.as_bytes());
                        f(idx, &prog);
                        idx += 1;
                    }
                }
            }
        }
    }
    idx
}

/// H: huge constant trip counts. The counter starts at -1 (2^w - 1 iterations); the body is every sequence
/// of <= 3 additive statements over b and c. Never executed (2^64 iterations): only built. A compile
/// step that is linear in the trip count instead of in its bit length shows up at 32/64 bit only.
pub fn space_h() -> Vec<Vec<u8>> {
    let mut stmts: Vec<Stmt> = vec![Stmt::Inc(1), Stmt::Inc(2), Stmt::Dec(1)];
    for (x, y) in [(1u8, 2u8), (2, 1)] {
        stmts.extend_from_slice(&[Stmt::AddD(x, y), Stmt::AddP(x, y), Stmt::Add2(x, y), Stmt::Add3(x, y), Stmt::SubD(x, y)]);
    }
    let pieces: Vec<Vec<u8>> = stmts
        .iter()
        .map(|s| {
            let mut v = Vec::new();
            s.emit(&mut v);
            v
        })
        .collect();
    let mut bodies: Vec<Vec<u8>> = vec![Vec::new()];
    let mut layer: Vec<Vec<u8>> = vec![Vec::new()];
    for _ in 0..3 {
        let mut next = Vec::new();
        for b in &layer {
            for p in &pieces {
                let mut n = b.clone();
                n.extend_from_slice(p);
                next.push(n);
            }
        }
        bodies.extend(next.iter().cloned());
        layer = next;
    }
    let mut out = Vec::new();
    for body in &bodies {
        for prefix in ["-", "->+>++<<"] {
            for shape in [Shape::DecFirst, Shape::DecLast] {
                let mut p = prefix.as_bytes().to_vec();
                emit_loop(&mut p, shape, 0, body);
                p.extend_from_slice(b">.>.");
                out.push(p);
            }
        }
    }
    out
}

/// NL: nested loops after a computation. Three inputs; one statement that computes with the variables
/// (so their values sit in temporaries / the generator's value table before any loop); then a counted
/// loop on a around an inner loop (every shape, on b or c) around one statement; then the outputs. The
/// values created before the outer loop are first used inside the inner loop: live ranges and value
/// tables must be carried across two loop levels.
pub fn space_nl(f: &mut dyn FnMut(u64, &[u8])) -> u64 {
    let all = all_stmts();
    let emit = |s: &Stmt| {
        let mut v = Vec::new();
        s.emit(&mut v);
        v
    };
    let pre: Vec<Vec<u8>> = all
        .iter()
        .filter(|s| matches!(s, Stmt::AddP(..) | Stmt::Copy(..) | Stmt::Mul(..) | Stmt::AddD(..)))
        .map(emit)
        .collect();
    let inner: Vec<Vec<u8>> = all.iter().map(emit).collect();
    let mut idx = 0u64;
    let mut prog = Vec::new();
    let mut body = Vec::new();
    let mut inner_loop = Vec::new();
    for p in &pre {
        for x in 1..3u8 {
            for shape in SHAPES {
                for st in &inner {
                    inner_loop.clear();
                    emit_loop(&mut inner_loop, shape, x, st);
                    for out_inside in [false, true] {
                        body.clear();
                        body.extend_from_slice(&inner_loop);
                        if out_inside {
                            // an output of the other variable after the inner loop
                            let mut o = Vec::new();
                            Stmt::Out(3 - x).emit(&mut o);
                            body.extend_from_slice(&o);
                        }
                        prog.clear();
                        prog.extend_from_slice(PREFIXES[0].as_bytes());
                        prog.extend_from_slice(p);
                        emit_loop(&mut prog, Shape::DecFirst, 0, &body);
                        prog.extend_from_slice(EPILOGUE.as_bytes());
                        f(idx, &prog);
                        idx += 1;
                    }
                }
            }
        }
    }
    idx
}

/// L3 (reduced): straight-line "compute; disturb; overwrite" triples at top level with the input-only
/// prefix: a statement that computes into a variable, then an input / output / clear / increment, then a
/// statement that overwrites a variable - the shapes in which a computed store is dead, partially dead
/// or has its operand clobbered inside one basic block (dead-store elimination and use counting in the
/// bytecode generator). The full three-statement space is thorough only.
pub fn space_l3_reduced(f: &mut dyn FnMut(u64, &[u8])) -> u64 {
    let all = all_stmts();
    let emit = |s: &Stmt| {
        let mut v = Vec::new();
        s.emit(&mut v);
        v
    };
    let first: Vec<Vec<u8>> = all
        .iter()
        .filter(|s| matches!(s, Stmt::AddD(..) | Stmt::AddP(..) | Stmt::Copy(..) | Stmt::Add2(..) | Stmt::SubD(..) | Stmt::Add3(..) | Stmt::Mul(..) | Stmt::Sq(..)))
        .map(emit)
        .collect();
    let second: Vec<Vec<u8>> = all.iter().filter(|s| matches!(s, Stmt::In(_) | Stmt::Out(_) | Stmt::Zero(_) | Stmt::Inc(_))).map(emit).collect();
    let third: Vec<Vec<u8>> = all.iter().filter(|s| matches!(s, Stmt::In(_) | Stmt::Zero(_) | Stmt::Copy(..))).map(emit).collect();
    let mut idx = 0u64;
    let mut prog = Vec::new();
    for a in &first {
        for b in &second {
            for c in &third {
                // two prefixes: three independent inputs, and one input duplicated into a and b (equal values
                // in distinct cells: value numbering turns a*b into a square)
                for prefix in [PREFIXES[0], ",[->+>+<<]>>[-<<+>>]<<"] {
                    prog.clear();
                    prog.extend_from_slice(prefix.as_bytes());
                    prog.extend_from_slice(a);
                    prog.extend_from_slice(b);
                    prog.extend_from_slice(c);
                    prog.extend_from_slice(EPILOGUE.as_bytes());
                    f(idx, &prog);
                    idx += 1;
                }
            }
        }
    }
    idx
}

/// L: straight-line code: prefix, every sequence of `min_n..=k` statements at top level (no enclosing
/// loop: the optimiser sees the known initial tape and one basic block), then `out` of every variable.
pub fn space_l(min_n: usize, k: usize, f: &mut dyn FnMut(u64, &[u8])) -> u64 {
    let stmts = all_stmts();
    let mut pieces: Vec<Vec<u8>> = Vec::new();
    for s in &stmts {
        let mut v = Vec::new();
        s.emit(&mut v);
        pieces.push(v);
    }
    fn rec(pieces: &[Vec<u8>], n: usize, body: &mut Vec<u8>, idx: &mut u64, f: &mut dyn FnMut(u64, &[u8])) {
        if n == 0 {
            for prefix in PREFIXES {
                let mut prog = prefix.as_bytes().to_vec();
                prog.extend_from_slice(body);
                prog.extend_from_slice(EPILOGUE.as_bytes());
                f(*idx, &prog);
                *idx += 1;
            }
            return;
        }
        for p in pieces {
            let l = body.len();
            body.extend_from_slice(p);
            rec(pieces, n - 1, body, idx, f);
            body.truncate(l);
        }
    }
    let mut idx = 0u64;
    let mut body = Vec::new();
    for n in min_n..=k {
        rec(&pieces, n, &mut body, &mut idx, f);
    }
    idx
}

/// SP: prefix · loop around <= 1 statement · one statement *after* the loop · epilogue. Values
/// computed inside a conditional block and (wrongly) reused after it need code after the block.
pub fn space_sp(f: &mut dyn FnMut(u64, &[u8])) -> u64 {
    let stmts = all_stmts();
    let mut pieces: Vec<Vec<u8>> = vec![Vec::new()];
    for s in &stmts {
        let mut v = Vec::new();
        s.emit(&mut v);
        pieces.push(v);
    }
    let mut idx = 0u64;
    let mut prog = Vec::new();
    for body in &pieces {
        for post in &pieces[1..] {
            for prefix in PREFIXES {
                for shape in SHAPES {
                    prog.clear();
                    prog.extend_from_slice(prefix.as_bytes());
                    emit_loop(&mut prog, shape, 0, body);
                    prog.extend_from_slice(post);
                    prog.extend_from_slice(EPILOGUE.as_bytes());
                    f(idx, &prog);
                    idx += 1;
                }
            }
        }
    }
    idx
}

/// K: the repository's own corpus, copied into /verif/corpus (name \t program per line).
pub fn space_k() -> Vec<(String, Vec<u8>)> {
    let path = format!("{}/corpus/k_tests.txt", crate::verif_dir());
    let mut v = Vec::new();
    if let Ok(s) = std::fs::read_to_string(&path) {
        for line in s.lines() {
            if let Some((n, c)) = line.split_once('\t') {
                v.push((n.to_string(), c.as_bytes().to_vec()));
            }
        }
    }
    v
}

/// R: programs that once exposed a defect (regression corpus, one program per line).
pub fn space_r() -> Vec<Vec<u8>> {
    let path = format!("{}/corpus/regressions.txt", crate::verif_dir());
    let mut v = Vec::new();
    if let Ok(s) = std::fs::read_to_string(&path) {
        for line in s.lines() {
            if !line.is_empty() && !line.starts_with('#') {
                v.push(line.as_bytes().to_vec());
            }
        }
    }
    v
}

/// D(n): nesting families.
pub fn nest_open_close(n: usize) -> Vec<u8> {
    let mut v = vec![b'['; n];
    v.extend(std::iter::repeat(b']').take(n));
    v
}

/// A skipped loop containing n nested loops, followed by visible output.
pub fn nest_skipped_then_print(n: usize) -> Vec<u8> {
    let mut v = vec![b'['];
    v.extend(std::iter::repeat(b'[').take(n));
    v.extend_from_slice(b"<+.->");
    v.extend(std::iter::repeat(b']').take(n));
    v.extend_from_slice(b"]+.");
    v
}

pub fn nest_counted(n: usize) -> Vec<u8> {
    let mut v = Vec::new();
    for _ in 0..n {
        v.extend_from_slice(b"+[");
    }
    for _ in 0..n {
        v.extend_from_slice(b"-]");
    }
    v
}
