//! mc — bounded exhaustive model checking of rolandbernard/hpbf (see /verif/DESIGN.md).

mod checks;
mod diff;
mod forms;
mod framework;
mod json;
mod refbc;
mod refbf;
mod spaces;

use std::process::Command;
use std::time::Instant;

use framework::{CheckInfo, Tier, WorkerCtx};
use json::J;

pub fn verif_dir() -> String {
    std::env::var("VERIF_DIR").unwrap_or_else(|_| "/verif".to_string())
}

pub fn target_dir() -> String {
    format!("{}/target", verif_dir())
}

fn exe_for(profile: &str) -> String {
    format!("{}/{}/mc", target_dir(), profile)
}

fn main() {
    // backtraces of deliberately provoked aborts/panics cost thousands of allocations each
    std::env::set_var("RUST_BACKTRACE", "0");
    hshim::install_panic_hook();
    let args: Vec<String> = std::env::args().skip(1).collect();
    if args.is_empty() {
        eprintln!("usage: mc run <property> <quick|thorough> | worker ... | replay <file>");
        std::process::exit(2);
    }
    if matches!(args[0].as_str(), "worker" | "digest") && std::env::var("MC_NOASLR").is_err() {
        // machine code embeds runtime addresses: make them equal across processes
        unsafe {
            const ADDR_NO_RANDOMIZE: libc::c_ulong = 0x0040000;
            if libc::personality(ADDR_NO_RANDOMIZE) != -1 {
                use std::os::unix::process::CommandExt;
                let exe = std::env::current_exe().unwrap();
                let err = std::process::Command::new(exe).args(&args).env("MC_NOASLR", "1").exec();
                eprintln!("re-exec failed: {err}");
            }
        }
    }
    if args[0] == "worker" {
        // never outlive the driver
        unsafe {
            libc::prctl(libc::PR_SET_PDEATHSIG, libc::SIGKILL);
        }
    }
    match args[0].as_str() {
        "count-spaces" => count_spaces(),
        "form-hunt" => form_hunt(args.get(1).map(|s| s.as_str()).unwrap_or("w")),
        "show-p" => {
            let l: Vec<usize> = args[2].split(',').filter_map(|x| x.parse().ok()).collect();
            println!("{}", String::from_utf8(spaces::p_program(args[1].parse().unwrap_or(3), &l, 2, false)).unwrap());
        }
        "dump-space" => {
            let mut f = |_: u64, c: &[u8]| println!("{}", std::str::from_utf8(c).unwrap());
            match args[1].as_str() {
                "nl" => { spaces::space_nl(&mut f); }
                "l3r" => { spaces::space_l3_reduced(&mut f); }
                "l2" => { spaces::space_l(0, 2, &mut f); }
                "sp" => { spaces::space_sp(&mut f); }
                "q" => { for c in spaces::space_q() { f(0, &c); } }
                "t" => { for c in spaces::space_t(false) { f(0, &c); } }
                "p" => { spaces::space_p(false, &mut f); }
                _ => {}
            }
        }
        "show-w" => show_w(args[1].parse().unwrap_or(3), &args[2]),
        "canon-info" => canon_info(&std::fs::read_to_string(&args[1]).unwrap_or_default(), args[2].as_bytes()),
        "find-level-probe" => {
            // development aid: programs whose printed IR differs between all of -O0..-O3
            let mut found = 0;
            let mut f = |_: u64, c: &[u8]| {
                if found >= 12 {
                    return;
                }
                let t = std::str::from_utf8(c).unwrap();
                let irs: Vec<_> = (0..4).map(|l| hshim::exec::ir_text(hshim::exec::Width::W8, l, t).unwrap_or_default()).collect();
                if irs[0] != irs[1] && irs[1] != irs[2] && irs[2] != irs[3] && irs[0] != irs[2] && irs[1] != irs[3] && irs[0] != irs[3] {
                    println!("{t}");
                    found += 1;
                }
            };
            spaces::space_b(5, &mut f);
            spaces::space_s(2, 0, &mut f);
            spaces::space_a(8, &mut f);
        }
        "digest" => {
            let w = hshim::exec::Width::from_bits(args[1].parse().unwrap_or(8)).unwrap_or(hshim::exec::Width::W8);
            match checks::compile::digest(w, args[2].parse().unwrap_or(0), &args[3]) {
                Ok(d) => println!("{d:016x}"),
                Err(e) => println!("error {e}"),
            }
        }
        "worker" => {
            let mut ctx = framework::make_worker_ctx(&args[1..]);
            checks::worker(&mut ctx);
            ctx.finish();
        }
        "run" => {
            let tier = Tier::parse(args.get(2).map(|s| s.as_str()).unwrap_or("quick")).expect("tier");
            std::process::exit(run_check(&args[1], tier));
        }
        "replay" => {
            std::process::exit(replay_file(&args[1]));
        }
        other => {
            eprintln!("unknown command {other}");
            std::process::exit(2);
        }
    }
}

fn replay_file(path: &str) -> i32 {
    let text = match std::fs::read_to_string(path) {
        Ok(t) => t,
        Err(e) => {
            eprintln!("cannot read {path}: {e}");
            return 2;
        }
    };
    let j = match J::parse(&text) {
        Ok(j) => j,
        Err(e) => {
            eprintln!("bad replay file: {e}");
            return 2;
        }
    };
    // a case recorded under another build profile is replayed by that profile's binary
    if let Some(p) = j.str("profile") {
        if p != diff::profile() {
            let st = Command::new(exe_for(p)).args(["replay", path]).status();
            return st.ok().and_then(|s| s.code()).unwrap_or(2);
        }
    }
    let (reproduced, what) = checks::replay(&j);
    if reproduced {
        println!("REPRODUCED {what}");
        1
    } else {
        println!("NOT-REPRODUCED {what}");
        0
    }
}

fn run_check(prop: &str, tier: Tier) -> i32 {
    let start = Instant::now();
    let Some(parts) = checks::parts(prop) else {
        eprintln!("unknown property {prop}");
        return 2;
    };
    let info: CheckInfo = checks::info(prop, tier);
    let mut stats = std::collections::BTreeMap::new();
    let mut known_hits = std::collections::BTreeMap::new();
    let mut violations: Vec<J> = Vec::new();
    let mut crashes: Vec<(String, String, J)> = Vec::new();
    let mut vcount = 0u64;
    let mut distinct = 0u64;
    let mut distinct_by_part = J::obj();
    let mut samples = Vec::new();
    let mut capped = false;
    for (sub, profile) in &parts {
        let exe = exe_for(profile);
        if !std::path::Path::new(&exe).exists() {
            eprintln!("MACHINERY: missing binary {exe}; run ./check setup");
            return 2;
        }
        let part_start = Instant::now();
        let out = framework::drive(&exe, sub, tier, info.hang_secs);
        eprintln!("[{sub}] {:.1}s", part_start.elapsed().as_secs_f64());
        for (k, v) in out.stats {
            if k.starts_with("max:") {
                let e = stats.entry(k).or_insert(0u64);
                *e = (*e).max(v);
            } else {
                *stats.entry(k).or_insert(0u64) += v;
            }
        }
        for (k, v) in out.known_hits {
            *known_hits.entry(k).or_insert(0u64) += v;
        }
        vcount += out.violation_count;
        // parts may explore the same cases (e.g. two build profiles): count conservatively
        distinct = distinct.max(out.distinct);
        distinct_by_part.put(sub, out.distinct);
        for s in out.samples {
            if samples.len() < 8 {
                samples.push(s);
            }
        }
        violations.extend(out.violations);
        for c in out.crashes {
            crashes.push((sub.to_string(), exe.clone(), c));
        }
        *stats.entry("cross_process_keys_compared".to_string()).or_insert(0) += out.agreed_keys;
        for (k, vs) in out.disagreements.iter().take(5) {
            // C13.det: key = idx << 8 | width index << 4 | level
            let idx = k >> 8;
            let (lines, _) = framework::run_one(&exe, sub, tier, idx, 120);
            let program = lines.iter().find_map(|l| l.strip_prefix("P\t").and_then(|r| r.split_once('\t')).map(|x| x.1.to_string())).unwrap_or_default();
            let widths = [8, 16, 32, 64];
            let wi = ((k >> 4) & 0xf) as usize;
            let wbits = if tier == Tier::Quick { [8, 64][wi.min(1)] } else { widths[wi.min(3)] };
            violations.push(
                J::obj()
                    .set("property", prop)
                    .set("kind", "compile")
                    .set("check", sub.as_str())
                    .set("tier", tier.name())
                    .set("key", format!("{prop}|cross-process|{wbits}|{}|{program}", k & 0xf))
                    .set("class", "nondeterministic")
                    .set("what", "cross-process")
                    .set("width", wbits)
                    .set("level", k & 0xf)
                    .set("program", program)
                    .set("observed", format!("digests {:x?} from different worker processes", vs)),
            );
        }
        vcount += out.disagreements.len() as u64;
        capped |= out.capped;
    }

    let known = framework::load_known(prop);
    if let Ok(path) = std::env::var("MC_DUMP") {
        let mut t = String::new();
        for v in &violations {
            t.push_str(&v.dump());
            t.push('\n');
        }
        let _ = std::fs::write(path, t);
    }
    let mut exit = 0;
    let replay_dir = format!("{}/replays/{}", verif_dir(), prop);
    let mut printed = 0;

    // crash / hang candidates: confirm by re-running the single case in a fresh process
    for (sub, exe, c) in &crashes {
        let idx = c.int("idx").unwrap_or(0) as u64;
        let what = c.str("what").unwrap_or("").to_string();
        let key = format!("{prop}|case|{sub}|{}|{}", tier.name(), c.str("program").unwrap_or(""));
        let class = if what == "hang" { "hang" } else { "crash" };
        if let Some((id, cl)) = known.members.get(&key) {
            if cl == class {
                *known_hits.entry(id.clone()).or_insert(0) += 1;
                continue;
            }
        }
        let (l1, h1) = framework::run_one(exe, sub, tier, idx, info.hang_secs.max(20));
        let (_, h2) = framework::run_one(exe, sub, tier, idx, info.hang_secs.max(20));
        let inner: Vec<&String> = l1.iter().filter(|l| l.starts_with("V\t")).collect();
        if h1 == "ok" && h2 == "ok" && inner.is_empty() {
            // The case is innocent on its own. A worker killed by a memory fault signal was then brought
            // down by the cases before it (heap corruption that surfaces later): that is a crash of the
            // code under test, attributed to the shard. Anything else is a machinery problem.
            let fault = ["signal 11", "signal 6", "signal 7", "signal 4"].contains(&what.as_str());
            if !fault {
                eprintln!("MACHINERY: worker died ({what}) at case {idx} of {sub} but the case passes alone");
                return 2;
            }
            vcount += 1;
            let shard = c.int("shard").unwrap_or(0);
            let nshards = c.int("nshards").unwrap_or(1);
            let j = c
                .clone()
                .set("property", prop)
                .set("kind", "shard")
                .set("key", format!("{prop}|shard|{sub}|{}|{shard}/{nshards}", tier.name()))
                .set("class", "crash-unattributed")
                .set("exe_profile", exe.rsplit('/').nth(1).unwrap_or("release"))
                .set("detail", format!("worker for shard {shard}/{nshards} died with {what} while on case {idx}; the case passes alone, so an earlier case of the shard corrupted memory"));
            let path = write_replay(&replay_dir, &j);
            println!("VIOLATION property={prop} replay={path}");
            printed += 1;
            exit = 1;
            continue;
        }
        vcount += 1;
        let j = c
            .clone()
            .set("property", prop)
            .set("kind", "case")
            .set("key", key)
            .set("class", class)
            .set("exe_profile", exe.rsplit('/').nth(1).unwrap_or("release"))
            .set("rerun", format!("{h1} / {h2}"));
        let path = write_replay(&replay_dir, &j);
        println!("VIOLATION property={prop} replay={path}");
        printed += 1;
        exit = 1;
    }

    for v in &violations {
        if printed >= 12 {
            break;
        }
        let path = write_replay(&replay_dir, v);
        // replay twice in fresh processes; a divergence is a machinery error, not a verdict.
        // Exception: an observed cross-process disagreement is conclusive by itself (two processes
        // produced different artefacts for the same input); its replay is inherently probabilistic.
        let mut ok = true;
        let conclusive = v.str("class") == Some("nondeterministic");
        for _ in 0..if conclusive { 0 } else { 2 } {
            let st = Command::new(exe_for("release")).args(["replay", &path]).output();
            match st {
                Ok(o) if String::from_utf8_lossy(&o.stdout).contains("REPRODUCED") && o.status.code() == Some(1) => {}
                // the replaying process itself died (memory corruption by the replayed case): reproduced
                Ok(o) if o.status.code().is_none() => {}
                Ok(o) => {
                    eprintln!(
                        "MACHINERY: replay of {path} diverged: {}",
                        String::from_utf8_lossy(&o.stdout).trim()
                    );
                    ok = false;
                }
                Err(e) => {
                    eprintln!("MACHINERY: cannot replay: {e}");
                    ok = false;
                }
            }
        }
        if !ok {
            return 2;
        }
        println!("VIOLATION property={prop} replay={path}");
        printed += 1;
        exit = 1;
    }
    if vcount > 0 {
        exit = 1;
        if printed == 0 {
            // violations were counted but none carried a replayable record
            println!("VIOLATION property={prop} replay={replay_dir}");
        }
    }
    for (id, n) in &known_hits {
        let d = known.descriptions.get(id).cloned().unwrap_or_default();
        println!("KNOWN-FINDING: property={prop} {id} {d} ({n} listed cases reproduced)");
    }

    // evidence
    let g = |k: &str| stats.get(k).copied().unwrap_or(0);
    let evaluations = g("executions").max(g("evaluations"));
    let mut cov = J::obj()
        .set("evaluations", evaluations)
        .set("distinct_nontrivial", distinct)
        .set("rule", info.rule.as_str())
        .set("samples", J::Arr(samples))
        .set("exhaustive", info.exhaustive && !capped)
        .set("bounds", info.bounds.clone());
    let mut states = g("states").max(g("env_nodes"));
    if states == 0 && g("transitions") > 0 {
        // explicit-state checks count their distinct states through the cross-worker distinct set
        states = distinct;
    }
    let transitions = g("transitions").max(g("actions_compared"));
    if states > 0 && transitions > 0 {
        cov.put("states", states);
        cov.put("transitions", transitions);
        cov.put("traces_validated_against_impl", g("traces_validated").max(g("executions")).max(g("evaluations")));
    }
    let mut counters = J::obj();
    let mut forms = J::obj();
    for (k, v) in &stats {
        if let Some(f) = k.strip_prefix("form:") {
            forms.put(f, *v);
        } else {
            counters.put(k, *v);
        }
    }
    cov.put("counters", counters);
    cov.put("distinct_by_part", distinct_by_part);
    if let J::Obj(m) = &forms {
        if !m.is_empty() {
            let reached: Vec<&String> = m.keys().collect();
            let missing: Vec<String> = forms::interesting_forms().into_iter().filter(|f| !reached.iter().any(|r| r.as_str() == f)).collect();
            cov.put("jit_instruction_forms_executed", forms.clone());
            cov.put("jit_forms_of_interest_not_reached", missing);
        }
    }
    let mut kh = J::obj();
    for (k, v) in &known_hits {
        kh.put(k, *v);
    }
    cov.put("known_findings_reproduced", kh);
    if capped {
        cov.put("caps_hit", "a shard stopped after 25 worker deaths");
    }
    let ev = J::obj()
        .set("property_id", prop)
        .set("tier", tier.name())
        .set("seed", std::env::var("VERIF_SEED").ok().and_then(|s| s.parse::<i64>().ok()).unwrap_or(0))
        .set("level", info.level)
        .set("coverage", cov)
        .set("assumptions", info.assumptions.clone())
        .set("wall_s", start.elapsed().as_secs_f64())
        .set("violations", vcount);
    let evdir = format!("{}/evidence", verif_dir());
    let _ = std::fs::create_dir_all(&evdir);
    if let Err(e) = std::fs::write(format!("{evdir}/{prop}.json"), ev.pretty()) {
        eprintln!("MACHINERY: cannot write evidence: {e}");
        return 2;
    }
    eprintln!(
        "[{prop} {}] evaluations={} distinct={} violations={} wall={:.1}s",
        tier.name(),
        evaluations,
        distinct,
        vcount,
        start.elapsed().as_secs_f64()
    );
    exit
}

fn write_replay(dir: &str, j: &J) -> String {
    let _ = std::fs::create_dir_all(dir);
    let text = j.pretty();
    let h = framework::fnv(j.str("key").unwrap_or(&text).as_bytes());
    let path = format!("{dir}/{h:016x}.json");
    let _ = std::fs::write(&path, text);
    path
}

#[allow(dead_code)]
pub fn count_spaces() {
    for k in 3..=6 {
        let n = spaces::space_b(k, &mut |_, _| {});
        println!("B({k}) = {n}");
    }
    for k in 5..=8 {
        let n = spaces::space_a(k, &mut |_, _| {});
        println!("A({k}) = {n}");
    }
    for k in 1..=3 {
        let n = spaces::space_s(k, 0, &mut |_, _| {});
        println!("S(1,{k}) = {n}");
    }
    for k in 1..=3 {
        println!("L({k}) = {}", spaces::space_l(0, k, &mut |_, _| {}));
    }
    println!("S2(2,1) = {}", spaces::space_s(2, 1, &mut |_, _| {}));
    println!("W quick = {}, W full = {}", spaces::space_w(false, &mut |_, _| {}), spaces::space_w(true, &mut |_, _| {}));
}

#[allow(dead_code)]
pub fn canon_info(code: &str, script: &[u8]) {
    for w in hshim::exec::Width::ALL {
        let c = refbf::run(code.as_bytes(), w, script, 50_000_000, false);
        println!("w{} verdict {:?} steps {} trace {} pmin {} pmax {}", w.bits(), c.verdict, c.steps, c.trace.len(), c.pmin, c.pmax);
    }
}

#[allow(dead_code)]
pub fn show_w(k: usize, forms: &str) {
    let f: Vec<usize> = forms.split(',').filter_map(|x| x.parse().ok()).collect();
    println!("{}", String::from_utf8(spaces::w_program(k, &f)).unwrap());
}


/// Development aid: which baseline-JIT instruction forms does the bytecode generator emit for the
/// programs of a (large) space? Translation only, 16 forked shards; prints the first witness per form.
#[allow(dead_code)]
pub fn form_hunt(which: &str) {
    use hshim::exec::Width;
    use std::collections::BTreeMap;
    use std::io::Read;
    const SHARDS: u64 = 16;
    let mut pipes = Vec::new();
    for shard in 0..SHARDS {
        let mut fds = [0i32; 2];
        unsafe { libc::pipe(fds.as_mut_ptr()) };
        let pid = unsafe { libc::fork() };
        if pid == 0 {
            unsafe { libc::close(fds[0]) };
            let mut found: BTreeMap<String, (u64, String)> = BTreeMap::new();
            let mut f = |idx: u64, c: &[u8]| {
                if idx % SHARDS != shard {
                    return;
                }
                let t = std::str::from_utf8(c).unwrap();
                for w in [Width::W8, Width::W64] {
                    for l in 1..=3u32 {
                        let r = std::panic::catch_unwind(|| hshim::exec::translate(w, l, t, 11, false, false));
                        if let Ok(Ok(bc)) = r {
                            for i in &bc.insts {
                                if let Some(form) = forms::jit_form(i, w) {
                                    let key = format!("{form} w{}", w.bits());
                                    let e = found.entry(key).or_insert((0, format!("-O{l} {t}")));
                                    e.0 += 1;
                                }
                            }
                        }
                    }
                }
            };
            match which {
                "w" => { spaces::space_w(true, &mut f); }
                "w3" => { spaces::space_w_sized(&[12, 13], 3, &mut f); }
                "s3" => { spaces::space_s(3, 0, &mut f); }
                "s22" => { spaces::space_s(2, 2, &mut f); }
                "p" => { spaces::space_p(false, &mut f); }
                "pf" => { spaces::space_p(true, &mut f); }
                "b6" => { spaces::space_b(6, &mut f); }
                "a8" => { spaces::space_a(8, &mut f); }
                _ => {}
            }
            let mut out = String::new();
            for (k, (n, wit)) in &found {
                out.push_str(&format!("{k}\t{n}\t{wit}\n"));
            }
            unsafe {
                libc::write(fds[1], out.as_ptr() as *const libc::c_void, out.len());
                libc::_exit(0);
            }
        }
        unsafe { libc::close(fds[1]) };
        pipes.push((pid, fds[0]));
    }
    let mut all: BTreeMap<String, (u64, String)> = BTreeMap::new();
    for (pid, fd) in pipes {
        use std::os::unix::io::FromRawFd;
        let mut file = unsafe { std::fs::File::from_raw_fd(fd) };
        let mut s = String::new();
        let _ = file.read_to_string(&mut s);
        let mut st = 0;
        unsafe { libc::waitpid(pid, &mut st, 0) };
        for line in s.lines() {
            let mut it = line.splitn(3, '\t');
            let (k, n, w) = (it.next().unwrap_or(""), it.next().unwrap_or("0"), it.next().unwrap_or(""));
            let e = all.entry(k.to_string()).or_insert((0, w.to_string()));
            e.0 += n.parse::<u64>().unwrap_or(0);
            if w.len() < e.1.len() {
                e.1 = w.to_string();
            }
        }
    }
    let interesting = forms::interesting_forms();
    for (k, (n, w)) in &all {
        let base = k.rsplit_once(" w").map(|x| x.0).unwrap_or(k);
        let mark = if interesting.iter().any(|f| f == base) { "*" } else { " " };
        let ws: String = w.chars().take(6000).collect();
        println!("{mark} {k}\t{n}\t{ws}");
    }
}
