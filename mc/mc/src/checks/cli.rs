//! C16: the command line runs what it was asked to run.
//!
//! Every argv vector of a bounded family is given to the real `hpbf` binary (built from /repo) and
//! compared with a CLI model: an independent fold of the arguments into (code, width, executor
//! kind, level, limit, static), evaluated through the library API (which C01..C10 tie to the
//! canonical semantics). Probe programs make each selection observable.

use std::io::{Read, Seek, Write};
use std::process::{Command, Stdio};
use std::time::{Duration, Instant};

use hshim::env::Act;
use hshim::exec::{compile, ir_text, translate, Backend, CompileErr, Mode, Width};
use hshim::galloc::Arm;

use crate::diff;
use crate::framework::{fnv, CheckInfo, Tier, WorkerCtx};
use crate::json::J;

fn cli_path() -> String {
    format!("{}/repo/release/hpbf", crate::target_dir())
}

#[derive(Clone, Copy, PartialEq, Eq, Debug)]
enum Kind {
    PrintIr,
    PrintBc,
    PrintJitBc,
    PrintMc,
    Inplace,
    IrInt,
    BcInt,
    BaseJit,
}

#[derive(Clone, Debug)]
struct Model {
    code: String,
    bits: u32,
    kind: Kind,
    level: u32,
    limit: Option<usize>,
    safe: bool,
    file_error: bool,
    warnings: bool,
    help: bool,
}

/// The CLI model: an independent fold over the arguments.
fn model(args: &[String], files: &dyn Fn(&str) -> Option<String>) -> Model {
    let mut m = Model { code: String::new(), bits: 8, kind: Kind::BaseJit, level: 2, limit: None, safe: true, file_error: false, warnings: false, help: false };
    let mut i = 0;
    while i < args.len() {
        let a = args[i].as_str();
        match a {
            "-f" | "-file" | "--file" => {
                i += 1;
                if i < args.len() {
                    match files(&args[i]) {
                        Some(t) => m.code.push_str(&t),
                        None => m.file_error = true,
                    }
                } else {
                    m.warnings = true;
                }
            }
            "--limit" => {
                i += 1;
                if i < args.len() {
                    match args[i].parse::<usize>() {
                        Ok(l) => m.limit = Some(l),
                        Err(_) => m.warnings = true,
                    }
                } else {
                    m.warnings = true;
                }
            }
            "--print-ir" => m.kind = Kind::PrintIr,
            "--print-bc" => m.kind = Kind::PrintBc,
            "--print-jit-bc" => m.kind = Kind::PrintJitBc,
            "--print-jit-mc" => m.kind = Kind::PrintMc,
            "--inplace" => m.kind = Kind::Inplace,
            "--ir-int" => m.kind = Kind::IrInt,
            "--bc-int" => m.kind = Kind::BcInt,
            "--base-jit" => m.kind = Kind::BaseJit,
            "-O0" => m.level = 0,
            "-O1" => m.level = 1,
            "-O2" => m.level = 2,
            "-O3" => m.level = 3,
            "-O4" => m.level = 4,
            "-O5" => m.level = 5,
            "-i8" => m.bits = 8,
            "-i16" => m.bits = 16,
            "-i32" => m.bits = 32,
            "-i64" => m.bits = 64,
            "-h" | "-help" | "--help" => m.help = true,
            "--static" => m.safe = false,
            _ => m.code.push_str(a),
        }
        i += 1;
    }
    m
}

struct Expected {
    stdout: Option<Vec<u8>>, // None = not compared (machine code)
    exit: i32,
    stderr_nonempty: Option<bool>,
    consumes_input: bool,
}

fn bytes_of(log: &[Act]) -> Vec<u8> {
    log.iter().filter_map(|a| if let Act::Out(b) = a { Some(*b) } else { None }).collect()
}

fn expected(m: &Model, stdin: &[u8]) -> Option<Expected> {
    if m.help {
        // help text only: nothing is executed, nothing is read (a file error still sets the exit status)
        return Some(Expected { stdout: None, exit: if m.file_error { 1 } else { 0 }, stderr_nonempty: Some(m.file_error || m.warnings), consumes_input: false });
    }
    if m.file_error {
        return Some(Expected { stdout: Some(Vec::new()), exit: 1, stderr_nonempty: Some(true), consumes_input: false });
    }
    let w = Width::from_bits(m.bits).unwrap();
    let err = |_: CompileErr| Expected { stdout: Some(Vec::new()), exit: 1, stderr_nonempty: Some(true), consumes_input: false };
    let ok_print = |s: String| Expected { stdout: Some(format!("{s}\n").into_bytes()), exit: 0, stderr_nonempty: Some(m.warnings), consumes_input: false };
    Some(match m.kind {
        Kind::PrintIr => match ir_text(w, m.level, &m.code) {
            Ok(t) => ok_print(t),
            Err(e) => err(e),
        },
        Kind::PrintBc => match translate(w, m.level, &m.code, 2, true, true) {
            Ok(b) => ok_print(b.text),
            Err(e) => err(e),
        },
        Kind::PrintJitBc => match translate(w, m.level, &m.code, 12, false, true) {
            Ok(b) => ok_print(b.text),
            Err(e) => err(e),
        },
        Kind::PrintMc => match compile(Backend::BaseJit, w, m.level, &m.code) {
            Ok(_) => Expected { stdout: None, exit: 0, stderr_nonempty: Some(m.warnings), consumes_input: false },
            Err(e) => err(e),
        },
        Kind::Inplace | Kind::IrInt | Kind::BcInt | Kind::BaseJit => {
            let b = match m.kind {
                Kind::Inplace => Backend::Inplace,
                Kind::IrInt => Backend::IrInt,
                Kind::BcInt => Backend::BcInt,
                _ => Backend::BaseJit,
            };
            match compile(b, w, m.level, &m.code) {
                Ok(c) => {
                    let mode = match m.limit {
                        Some(l) => Mode::Limited(l),
                        None => Mode::Execute,
                    };
                    let (r, log) = diff::run_logged(&c, mode, stdin, 1 << 20, Arm::default());
                    if r.panicked.is_some() {
                        return None;
                    }
                    let failed = r.err.is_some();
                    Expected {
                        stdout: Some(bytes_of(&log)),
                        exit: if failed { 1 } else { 0 },
                        stderr_nonempty: Some(failed || m.warnings),
                        consumes_input: log.iter().any(|a| *a == Act::In),
                    }
                }
                Err(e) => err(e),
            }
        }
    })
}

struct Ran {
    stdout: Vec<u8>,
    stderr: Vec<u8>,
    exit: Option<i32>,
    stdin_offset: u64,
    timed_out: bool,
}

fn run_cli(args: &[String], stdin: &[u8], dir: &str, strace: bool) -> (Ran, bool) {
    let stdin_path = format!("{dir}/stdin");
    std::fs::write(&stdin_path, stdin).unwrap();
    let mut f = std::fs::File::open(&stdin_path).unwrap();
    let trace_path = format!("{dir}/trace");
    let mut cmd = if strace {
        let mut c = Command::new("strace");
        c.args(["-f", "-e", "trace=mmap", "-o", &trace_path, &cli_path()]);
        c
    } else {
        Command::new(cli_path())
    };
    cmd.args(args).current_dir(dir).stdin(Stdio::from(f.try_clone().unwrap())).stdout(Stdio::piped()).stderr(Stdio::piped());
    let mut child = cmd.spawn().expect("spawn hpbf");
    let mut so = child.stdout.take().unwrap();
    let mut se = child.stderr.take().unwrap();
    let t1 = std::thread::spawn(move || {
        // bounded: a wrongly unlimited printer must not fill memory
        let mut v = Vec::new();
        let mut buf = [0u8; 65536];
        while v.len() < (4 << 20) {
            match so.read(&mut buf) {
                Ok(0) | Err(_) => break,
                Ok(n) => v.extend_from_slice(&buf[..n]),
            }
        }
        v
    });
    let t2 = std::thread::spawn(move || {
        let mut v = Vec::new();
        let _ = se.read_to_end(&mut v);
        v
    });
    let start = Instant::now();
    let mut timed_out = false;
    let status = loop {
        if let Ok(Some(s)) = child.try_wait() {
            break Some(s);
        }
        if start.elapsed() > Duration::from_secs(if strace { 20 } else { 5 }) {
            let _ = child.kill();
            let _ = child.wait();
            timed_out = true;
            break None;
        }
        std::thread::sleep(Duration::from_millis(1));
    };
    let stdout = t1.join().unwrap_or_default();
    let stderr = t2.join().unwrap_or_default();
    let off = f.stream_position().unwrap_or(0);
    let exec_map = if strace {
        std::fs::read_to_string(&trace_path).map(|t| t.lines().any(|l| l.contains("PROT_EXEC") && l.contains("MAP_ANONYMOUS"))).unwrap_or(false)
    } else {
        false
    };
    (Ran { stdout, stderr, exit: status.and_then(|s| s.code()), stdin_offset: off, timed_out }, exec_map)
}

// probe programs -------------------------------------------------------------------------------

/// prints 3 bytes: (2^8 != 0), (2^16 != 0), marker; cheap on every backend
const PROBE_W16: &str = "++++++++[>++++++++[>++++<-]<-]>>[>+<[-]]>.[-]<<<++++++++[>++++++++[>++++<-]<-]>>[>++++++++[>++++++++[>++++<-]<-]<-]>>>[>+<[-]]>.[-]++++++.";
/// prints (2^33 mod 2^w != 0): a chain of eight multiply-by-16 loops, constant folded on optimising configurations only
const PROBE_W32: &str = "++[>++++++++++++++++<-]>[>++++++++++++++++<-]>[>++++++++++++++++<-]>[>++++++++++++++++<-]>[>++++++++++++++++<-]>[>++++++++++++++++<-]>[>++++++++++++++++<-]>[>++++++++++++++++<-]>[>+<[-]]>.";
const PROBE_ORDER_A: &str = "+++";
const PROBE_ORDER_B: &str = "[>++<-]>.";
const PROBE_ECHO: &str = ",.,.,.";
const PROBE_LIMIT: &str = "+[.[-]+]";
const PROBE_LEVEL: &str = ",>,>,<<[-.>[-]<[->+>>+<<<]>>>[-<<<+>>>]<<<].>.>.>.";
const UNBALANCED_OPEN: &str = "+[.";
const UNBALANCED_CLOSE: &str = "+].";

#[derive(Clone)]
struct Case {
    args: Vec<String>,
    stdin: Vec<u8>,
    strace: bool,
}

fn s(v: &[&str]) -> Vec<String> {
    v.iter().map(|x| x.to_string()).collect()
}

fn cases(tier: Tier) -> Vec<Case> {
    let mut out: Vec<Case> = Vec::new();
    let backends = ["", "--inplace", "--ir-int", "--bc-int", "--base-jit"];
    let widths = ["", "-i8", "-i16", "-i32", "-i64"];
    let levels = ["", "-O0", "-O1", "-O2", "-O3", "-O4", "-O5"];
    let limits: [&[&str]; 4] = [&[], &["--limit", "0"], &["--limit", "7"], &["--limit", "1000000"]];
    let statics = ["", "--static"];
    let prints = ["", "--print-ir", "--print-bc", "--print-jit-bc", "--print-jit-mc"];
    let push = |out: &mut Vec<Case>, flags: Vec<String>, code: Vec<String>, stdin: &[u8], flags_last: bool| {
        let mut a = Vec::new();
        if flags_last {
            a.extend(code);
            a.extend(flags.into_iter().filter(|x| !x.is_empty()));
        } else {
            a.extend(flags.into_iter().filter(|x| !x.is_empty()));
            a.extend(code);
        }
        out.push(Case { args: a, stdin: stdin.to_vec(), strace: false });
    };
    let full = true;
    let thorough = tier == Tier::Thorough;
    // 1. backend x width x level (the three selections), width/limit/echo probes
    for b in backends {
        for w in widths {
            for l in levels {
                let nondefault = [b, w, l].iter().filter(|x| !x.is_empty()).count();
                if !full && nondefault > 2 && !(l == "-O0" || l == "-O3") {
                    continue;
                }
                push(&mut out, s(&[b, w, l]), s(&[PROBE_W16]), b"", false);
                if thorough {
                    push(&mut out, s(&[l, w, b]), s(&[PROBE_W16]), b"", true);
                    push(&mut out, s(&[b, w, l, "--static"]), s(&[PROBE_ECHO]), b"AB", false);
                    for p in ["--print-ir", "--print-bc", "--print-jit-bc"] {
                        push(&mut out, s(&[b, w, l, p]), s(&[PROBE_LEVEL]), b"AB", false);
                        push(&mut out, s(&[p, b, w, l]), s(&[PROBE_ECHO]), b"AB", false);
                    }
                }
                let optimising = b != "--inplace" && l != "-O0";
                if optimising {
                    push(&mut out, s(&[b, w, l]), s(&[PROBE_W32]), b"", false);
                }
                for lim in limits {
                    if lim.is_empty() || (!full && nondefault > 1) {
                        continue;
                    }
                    let mut f = s(&[b, w, l]);
                    f.extend(s(lim));
                    push(&mut out, f, s(&[PROBE_LIMIT]), b"", false);
                }
            }
        }
        // --static together with --limit, in both orders: the limit still applies
        for lim in &limits[1..] {
            let mut f = s(&[b, "--static"]);
            f.extend(s(lim));
            push(&mut out, f, s(&[PROBE_LIMIT]), b"", false);
            let mut f = s(&[b]);
            f.extend(s(lim));
            f.push("--static".to_string());
            push(&mut out, f, s(&[PROBE_LIMIT]), b"", true);
        }
        // echo: stdin handling, flags after the code
        push(&mut out, s(&[b]), s(&[PROBE_ECHO]), b"AB", false);
        push(&mut out, s(&[b]), s(&[PROBE_ECHO]), b"", true);
        for st in statics {
            for w in widths {
                push(&mut out, s(&[b, st, w]), s(&[PROBE_W16]), b"", false);
                push(&mut out, s(&[b, st, w]), s(&[PROBE_ECHO]), b"AB", true);
            }
        }
    }
    // 2. print options: no execution, no input consumed; level visible in the IR
    for p in &prints[1..] {
        for l in levels {
            for w in ["", "-i16", "-i64"] {
                push(&mut out, s(&[p, l, w]), s(&[PROBE_LEVEL]), b"AB", false);
                push(&mut out, s(&[p, l, w]), s(&[PROBE_ECHO]), b"AB", true);
            }
        }
        push(&mut out, s(&[p, "--limit", "7"]), s(&[PROBE_LIMIT]), b"AB", false);
        push(&mut out, s(&[p, "--static"]), s(&[PROBE_LIMIT]), b"AB", false);
        push(&mut out, s(&[p]), s(&[UNBALANCED_OPEN]), b"", false);
    }
    // 3. conflicting flags in both orders: the last one wins
    let groups: [&[&str]; 3] = [
        &["--inplace", "--ir-int", "--bc-int", "--base-jit", "--print-ir", "--print-bc"],
        &["-i8", "-i16", "-i32", "-i64"],
        &["-O0", "-O1", "-O2", "-O3", "-O5"],
    ];
    for g in groups {
        for a in g.iter() {
            for b in g.iter() {
                if a != b {
                    push(&mut out, s(&[a, b]), s(&[PROBE_W16]), b"", false);
                    push(&mut out, s(&[a, b, "--limit", "7"]), s(&[PROBE_LIMIT]), b"", false);
                    push(&mut out, s(&[a, "--print-ir", b]), s(&[PROBE_LEVEL]), b"", false);
                }
            }
        }
    }
    push(&mut out, s(&["--limit", "7", "--limit", "3"]), s(&[PROBE_LIMIT]), b"", false);
    push(&mut out, s(&["--limit", "x7"]), s(&[PROBE_ECHO]), b"AB", false);
    push(&mut out, s(&[]), s(&[PROBE_ECHO, "--limit"]), b"AB", false);
    push(&mut out, s(&[]), s(&[PROBE_ECHO, "-f"]), b"AB", false);
    // 4. code placement (files are created in the case directory)
    for b in backends {
        for code in [
            s(&[PROBE_ORDER_A, PROBE_ORDER_B]),
            s(&[PROBE_ORDER_B, PROBE_ORDER_A]),
            s(&["-f", "a.bf", PROBE_ORDER_B]),
            s(&[PROBE_ORDER_A, "-f", "b.bf"]),
            s(&["-f", "a.bf", "--file", "b.bf"]),
            s(&["-f", "b.bf", "-file", "a.bf"]),
            s(&["-f", "missing.bf", PROBE_ORDER_A, PROBE_ORDER_B]),
            s(&[PROBE_ORDER_A, PROBE_ORDER_B, "-f", "missing.bf"]),
            s(&[UNBALANCED_OPEN]),
            s(&[UNBALANCED_CLOSE]),
            s(&["-f", "c.bf"]),
            s(&[]),
        ] {
            push(&mut out, s(&[b]), code.clone(), b"AB", false);
            push(&mut out, s(&[b, "-i16", "-O1"]), code, b"", true);
        }
    }
    // 4a. bare arguments that look like options but are not: every argument that is not a recognised
    // option is code (`-` is a command), wherever it stands and whatever else it contains
    for b in ["", "--inplace", "--bc-int"] {
        for piece in ["-", "--", "---", "----", "--dec", "-x", "--llvm", "-O", "-O6", "-i", "-i7", "--limit7", "--print", "-+", "+-", "--inplace-", "-f.", "--static.", "--time-"] {
            push(&mut out, s(&[b]), s(&[",+++", piece, "."]), b"AB", false);
            push(&mut out, s(&[b, "-i16"]), s(&[piece, "-", "."]), b"", true);
        }
    }
    // 4c. -f operands that are named pipes (size 0 in their metadata): read to end of file like any file
    for b in ["", "--inplace", "--bc-int", "--ir-int"] {
        push(&mut out, s(&[b]), s(&["-f", "p.fifo", PROBE_ORDER_B]), b"AB", false);
        push(&mut out, s(&[b, "-i16"]), s(&["-f", "a.bf", "-f", "p.fifo", PROBE_ORDER_B]), b"", false);
        push(&mut out, s(&[b]), s(&["-f", "u.fifo"]), b"AB", false);
    }
    // 4b. help and a file that is not valid UTF-8
    for h in ["-h", "-help", "--help"] {
        push(&mut out, s(&[h]), s(&[PROBE_ECHO]), b"AB", false);
        push(&mut out, s(&[h, "--bc-int"]), s(&[PROBE_LIMIT]), b"AB", true);
    }
    // a file error is sticky: a later readable file must not clear it (and vice versa)
    for bad in ["missing.bf", "bad.bf"] {
        for b in ["", "--inplace", "--bc-int"] {
            push(&mut out, s(&[b]), s(&["-f", bad, "-f", "a.bf", PROBE_ORDER_B]), b"AB", false);
            push(&mut out, s(&[b]), s(&["-f", "a.bf", "-f", bad, PROBE_ORDER_B]), b"AB", false);
            push(&mut out, s(&[b]), s(&["-f", bad, "-f", bad]), b"AB", false);
            push(&mut out, s(&[b]), s(&["-f", "a.bf", "-f", bad, "-f", "b.bf"]), b"AB", false);
        }
    }
    for b in backends {
        push(&mut out, s(&[b]), s(&["-f", "bad.bf"]), b"AB", false);
        push(&mut out, s(&[b]), s(&[PROBE_ORDER_A, "-f", "bad.bf", PROBE_ORDER_B]), b"AB", false);
    }
    // 5. which executor really runs: an executable anonymous mapping appears iff the JIT was selected
    for flags in [
        s(&[]),
        s(&["--base-jit"]),
        s(&["--bc-int"]),
        s(&["--ir-int"]),
        s(&["--inplace"]),
        s(&["--bc-int", "--base-jit"]),
        s(&["--base-jit", "--bc-int"]),
        s(&["--ir-int", "-O3", "--base-jit", "-i64"]),
        s(&["--base-jit", "--print-ir"]),
        s(&["--print-bc", "--base-jit"]),
        s(&["--static"]),
        s(&["--bc-int", "--static"]),
        s(&["--limit", "7"]),
        s(&["--bc-int", "--limit", "7"]),
    ] {
        let mut a = flags.clone();
        a.push(PROBE_LIMIT.replace("+[.[-]+]", "+++.").to_string());
        out.push(Case { args: a, stdin: Vec::new(), strace: true });
    }
    out
}

fn file_content(name: &str) -> Option<String> {
    match name {
        "a.bf" => Some(PROBE_ORDER_A.to_string()),
        "b.bf" => Some(PROBE_ORDER_B.to_string()),
        "c.bf" => Some("comment é [-] ++++++++[>++++++++<-]>+.\n".to_string()),
        // named pipes: a file whose reported size says nothing about its content
        "p.fifo" => Some(PROBE_ORDER_A.to_string()),
        "u.fifo" => Some(UNBALANCED_OPEN.to_string()),
        // bad.bf exists but is not valid UTF-8: reported like an unreadable file
        _ => None,
    }
}

fn judge(ctx: &mut WorkerCtx, dir: &str, case: &Case) {
    let m = model(&case.args, &file_content);
    let Some(exp) = expected(&m, &case.stdin) else {
        ctx.count("skipped_model_undefined", 1);
        return;
    };
    for (n, c) in [("a.bf", PROBE_ORDER_A), ("b.bf", PROBE_ORDER_B)] {
        let _ = std::fs::write(format!("{dir}/{n}"), c);
    }
    let _ = std::fs::write(format!("{dir}/c.bf"), file_content("c.bf").unwrap());
    let _ = std::fs::write(format!("{dir}/bad.bf"), [b'+', b'.', 0xff, 0xfe, b'+', b'.']);
    ctx.count("evaluations", 1);
    ctx.count("executions", 1);
    ctx.distinct(fnv(case.args.join("\u{1}").as_bytes()) ^ fnv(&case.stdin));
    // named pipes given to -f: a feeder thread writes the content once the program opens the pipe (and gives
    // up when the program has exited without ever opening it)
    let done = std::sync::Arc::new(std::sync::atomic::AtomicBool::new(false));
    let mut feeders = Vec::new();
    for name in ["p.fifo", "u.fifo"] {
        if !case.args.iter().any(|a| a == name) {
            continue;
        }
        let path = format!("{dir}/{name}");
        let _ = std::fs::remove_file(&path);
        let cpath = std::ffi::CString::new(path.clone()).unwrap();
        unsafe { libc::mkfifo(cpath.as_ptr(), 0o600) };
        let content = file_content(name).unwrap();
        let times = case.args.iter().filter(|a| *a == name).count();
        let done = done.clone();
        feeders.push(std::thread::spawn(move || {
            let mut fed = 0;
            while fed < times && !done.load(std::sync::atomic::Ordering::Relaxed) {
                let fd = unsafe { libc::open(cpath.as_ptr(), libc::O_WRONLY | libc::O_NONBLOCK) };
                if fd < 0 {
                    std::thread::sleep(Duration::from_millis(1));
                    continue;
                }
                unsafe {
                    libc::write(fd, content.as_ptr() as *const libc::c_void, content.len());
                    libc::close(fd);
                }
                fed += 1;
                // let the reader see end of file before the pipe is offered again
                std::thread::sleep(Duration::from_millis(20));
            }
        }));
    }
    let (ran, exec_map) = run_cli(&case.args, &case.stdin, dir, case.strace);
    done.store(true, std::sync::atomic::Ordering::Relaxed);
    for f in feeders {
        let _ = f.join();
    }
    for name in ["p.fifo", "u.fifo"] {
        let _ = std::fs::remove_file(format!("{dir}/{name}"));
    }
    let mut problems: Vec<String> = Vec::new();
    if ran.timed_out {
        problems.push("no exit within the time limit (output so far kept)".into());
    }
    if let Some(want) = &exp.stdout {
        if ran.stdout != *want {
            problems.push(format!("stdout {:?} but the model gives {:?}", String::from_utf8_lossy(&ran.stdout[..ran.stdout.len().min(120)]), String::from_utf8_lossy(&want[..want.len().min(120)])));
        }
    } else if ran.stdout.is_empty() {
        problems.push("nothing printed".into());
    } else if m.help && !ran.stdout.starts_with(b"Usage:") {
        problems.push("help text expected on stdout".into());
    }
    if ran.exit != Some(exp.exit) {
        problems.push(format!("exit status {:?}, expected {}", ran.exit, exp.exit));
    }
    if let Some(ne) = exp.stderr_nonempty {
        if ne && ran.stderr.is_empty() {
            problems.push("no diagnostic on stderr".into());
        }
        if !ne && !ran.stderr.is_empty() {
            problems.push(format!("unexpected stderr: {}", String::from_utf8_lossy(&ran.stderr[..ran.stderr.len().min(120)])));
        }
    }
    if !exp.consumes_input && ran.stdin_offset != 0 {
        problems.push(format!("stdin was consumed up to offset {} although nothing should read it", ran.stdin_offset));
    }
    if case.strace {
        let want = m.kind == Kind::BaseJit && !m.file_error;
        if exec_map != want {
            problems.push(format!("executable anonymous mapping seen: {exec_map}, expected {want} (kind {:?})", m.kind));
        }
    }
    if !problems.is_empty() {
        let key = format!("C16|{}|{}", case.args.join(" "), String::from_utf8_lossy(&case.stdin));
        ctx.fail(
            J::obj()
                .set("property", "C16")
                .set("kind", "cli")
                .set("key", key)
                .set("class", "cli-mismatch")
                .set("args", case.args.clone())
                .set("stdin", String::from_utf8_lossy(&case.stdin).to_string())
                .set("strace", case.strace)
                .set("model", format!("{m:?}"))
                .set("observed", problems.join(" | ")),
        );
    }
}

/// The probes must really separate the selections (recomputed through the library, not hard-coded).
fn probe_sanity(ctx: &mut WorkerCtx) {
    let run = |b: Backend, w: Width, level: u32, mode: Mode, code: &str| -> Vec<u8> {
        compile(b, w, level, code).map(|c| bytes_of(&diff::run_logged(&c, mode, b"AB", 1 << 20, Arm::default()).1)).unwrap_or_default()
    };
    let mut notes = Vec::new();
    let w16: Vec<Vec<u8>> = Width::ALL.iter().map(|&w| run(Backend::BcInt, w, 2, Mode::Execute, PROBE_W16)).collect();
    if w16[0] == w16[1] || w16[1] == w16[2] {
        notes.push("PROBE_W16 does not separate 8/16/wider".to_string());
    }
    let w32: Vec<Vec<u8>> = [Width::W32, Width::W64].iter().map(|&w| run(Backend::BcInt, w, 2, Mode::Execute, PROBE_W32)).collect();
    if w32[0] == w32[1] {
        notes.push("PROBE_W32 does not separate 32/64".to_string());
    }
    let lim: Vec<Vec<u8>> = [Backend::Inplace, Backend::IrInt, Backend::BcInt].iter().map(|&b| run(b, Width::W8, 2, Mode::Limited(7), PROBE_LIMIT)).collect();
    if lim[0] == lim[1] || lim[1] == lim[2] || lim[0] == lim[2] {
        notes.push(format!("PROBE_LIMIT does not separate inplace/ir/bytecode: {:?}", lim.iter().map(|l| l.len()).collect::<Vec<_>>()));
    }
    let irs: Vec<String> = (0..4).map(|l| ir_text(Width::W8, l, PROBE_LEVEL).unwrap_or_default()).collect();
    for i in 0..4 {
        for j in i + 1..4 {
            if irs[i] == irs[j] {
                notes.push(format!("PROBE_LEVEL does not separate -O{i} from -O{j}"));
            }
        }
    }
    ctx.count("probe_separation_gaps", notes.len() as u64);
    ctx.sample(|| J::obj().set("probe_sanity", notes.clone()).set("limit7_output_lengths", lim.iter().map(|l| l.len() as u64).collect::<Vec<_>>()));
}

pub fn worker(ctx: &mut WorkerCtx) {
    let dir = format!("{}/run/cli-{}-{}", crate::target_dir(), std::process::id(), ctx.shard);
    let _ = std::fs::create_dir_all(&dir);
    if !std::path::Path::new(&cli_path()).exists() {
        eprintln!("MACHINERY: {} missing (./check setup builds it)", cli_path());
        std::process::exit(2);
    }
    let all = cases(ctx.tier);
    if ctx.shard == 0 || ctx.only.is_some() {
        probe_sanity(ctx);
    }
    for (i, c) in all.iter().enumerate() {
        if ctx.owns(i as u64) {
            ctx.mark(i as u64, 0, c.args.join(" ").as_bytes());
            judge(ctx, &dir, c);
            if i % 997 == 0 {
                ctx.sample(|| J::obj().set("argv", c.args.clone()).set("stdin", String::from_utf8_lossy(&c.stdin).to_string()));
            }
        }
    }
    let _ = std::fs::remove_dir_all(&dir);
    let _ = std::io::stdout().flush();
}

pub fn replay_case(j: &J) -> (bool, String) {
    let args: Vec<String> = j.arr("args").map(|a| a.iter().filter_map(|x| x.as_str().map(|s| s.to_string())).collect()).unwrap_or_default();
    let stdin = j.str("stdin").unwrap_or("").as_bytes().to_vec();
    let strace = matches!(j.get("strace"), Some(J::Bool(true)));
    let dir = format!("{}/run/cli-replay-{}", crate::target_dir(), std::process::id());
    let _ = std::fs::create_dir_all(&dir);
    let mut ctx = crate::framework::collector_ctx("C16", Tier::Quick);
    judge(&mut ctx, &dir, &Case { args, stdin, strace });
    let _ = std::fs::remove_dir_all(&dir);
    let got = ctx.collected.unwrap_or_default();
    match got.first() {
        Some(g) => (true, g.str("observed").unwrap_or("").to_string()),
        None => (false, "passes now".into()),
    }
}

pub fn info(tier: Tier) -> CheckInfo {
    CheckInfo {
        id: "C16",
        level: "model_checking",
        rule: format!(
            "Every argv vector of a bounded family is run on the real release binary built from /repo (stdin is a regular file whose offset \
             is read back after exit) and compared with a CLI model — an independent fold of the arguments into (code, width, executor \
             kind, level, limit, static) evaluated through the library API: (1) backend x width x level ({}), each with a width probe \
             (2^8 and 2^16 wrap-around everywhere, 2^32 closed form on optimising configurations), --limit in {{0,7,10^6}} with a divergent \
             printer whose byte count separates in-place / IR / bytecode budgets, echo of stdin, --static x width; (2) every print option \
             x level x width: exact printed IR / bytecode text (the level's only observable), machine code non-empty, exit 0, stdin \
             offset 0; (3) every ordered pair of conflicting flags per group (executor/print kind, width, level): last one wins; invalid \
             and missing --limit / -f operands; (4) code placement: -f operands that are named pipes, bare arguments that look like options (`--`, `---`, `-x`, `--dec`, `-O6` ...) between other code arguments, two args in both orders, file+arg, arg+file, two files, missing file, file that is not valid UTF-8, \
             unbalanced code, comment file, empty, the help flags — for every backend, flags before and after the code; (5) strace -e trace=mmap on 14 \
             backend-selecting shapes: an executable anonymous mapping appears iff the baseline JIT was selected. Probe separation is \
             recomputed through the library in every run. evaluations = process runs; distinct = distinct (argv, stdin).",
            if tier == Tier::Quick { "full product" } else { "full product, also with flags after the code, with --static and with each print option before and after the selections" }
        ),
        assumptions: vec![
            "the model evaluates through the library API; C01..C10 tie that API to the canonical semantics".into(),
            "machine code bytes embed runtime addresses of the hpbf process and are not compared byte for byte".into(),
            "--static is expected to behave like the checked run for probes that stay inside the pre-allocated region (C10)".into(),
        ],
        bounds: J::obj().set("vectors", cases(tier).len()),
        exhaustive: true,
        hang_secs: 120,
    }
}
