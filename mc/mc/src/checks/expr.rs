//! C15: the symbolic expression algebra agrees with concrete arithmetic.
//!
//! Breadth-first closure of the public `ir::Expr` API from a pool of atoms; every expression
//! built is evaluated under a complete grid of assignments and compared with the arithmetic on
//! the operand values; every decomposition that answers must recompose.

use std::collections::HashSet;

use hpbf::ir::Expr;
use hpbf::CellType;

use crate::framework::{fnv, CheckInfo, Tier, WorkerCtx};
use crate::json::J;

const NVARS: usize = 3;

fn consts<C: CellType>() -> Vec<C> {
    let half = C::ONE.wrapping_shl(C::BITS - 1);
    vec![
        C::ZERO,
        C::ONE,
        C::from_u64(2),
        C::from_u64(3),
        C::NEG_ONE,
        half,
        half.wrapping_add(C::ONE),
        half.wrapping_add(C::NEG_ONE),
    ]
}

/// Assignments: for 8 bit a full grid of two variables (third from a boundary set) in thorough,
/// a 32x32x4 boundary grid otherwise; wider cells use boundary values.
fn assignments<C: CellType>(full: bool) -> Vec<[C; NVARS]> {
    let half = 1u64 << (C::BITS - 1);
    let mask = if C::BITS == 64 { u64::MAX } else { (1u64 << C::BITS) - 1 };
    let b: Vec<u64> = vec![0, 1, 2, 3, 5, 7, 8, 16, 127, 128, 129, 255, half - 1, half, half + 1, mask, mask - 1, mask / 3, 0x55555555_55555555 & mask, 0xAAAAAAAA_AAAAAAAA & mask];
    let mut b: Vec<u64> = b.into_iter().map(|x| x & mask).collect();
    b.sort();
    b.dedup();
    let third = [0u64, 1, 2, half & mask, mask];
    let mut v = Vec::new();
    if C::BITS == 8 && full {
        for x in 0..256u64 {
            for y in 0..256u64 {
                v.push([C::from_u64(x), C::from_u64(y), C::from_u64((x * 7 + y * 13 + 1) & 0xff)]);
            }
        }
        for &z in &third {
            for &x in &b {
                for &y in &b {
                    v.push([C::from_u64(x), C::from_u64(y), C::from_u64(z)]);
                }
            }
        }
    } else {
        for &x in &b {
            for &y in &b {
                for &z in &third {
                    v.push([C::from_u64(x), C::from_u64(y), C::from_u64(z)]);
                }
            }
        }
    }
    v
}

fn ev<C: CellType>(e: &Expr<C>, a: &[C; NVARS]) -> C {
    e.evaluate(|v| if (0..NVARS as isize).contains(&v) { a[v as usize] } else { C::ZERO })
}

struct Checker<'a, C: CellType> {
    asg: &'a [[C; NVARS]],
    /// a strided subset of the boundary grid for the (many) split_along partitions
    split_asg: &'a [[C; NVARS]],
    errors: Vec<(String, String)>,
    evals: u64,
}

impl<C: CellType> Checker<'_, C> {
    fn same(&mut self, what: &str, desc: impl Fn() -> String, got: &Expr<C>, want: impl Fn(&[C; NVARS]) -> C) {
        for a in self.asg {
            self.evals += 1;
            let g = ev(got, a);
            let w = want(a);
            if g != w {
                if self.errors.len() < 4 {
                    self.errors.push((what.to_string(), format!("{}: result `{got:?}` evaluates to {g:?} but the operands give {w:?} at {a:?}", desc())));
                }
                return;
            }
        }
    }
}

/// All checks that involve a single expression.
fn unary<C: CellType>(ck: &mut Checker<C>, e: &Expr<C>) {
    let d = || format!("`{e:?}`");
    ck.same("neg", d, &e.neg(), |a| ev(e, a).wrapping_neg());
    ck.same("normalize", d, &e.clone().normalize(), |a| ev(e, a));
    if let Some(h) = e.half() {
        // half() is only allowed when doubling gives back the value
        ck.same("half", d, &h.add(&h), |a| ev(e, a));
    }
    if let Some(c) = e.constant() {
        ck.same("constant", d, &Expr::val(c), |a| ev(e, a));
    }
    let cp = e.constant_part();
    if ev(e, &[C::ZERO; NVARS]) != cp {
        ck.errors.push(("constant_part".into(), format!("{}: constant_part {cp:?} != value at zero", d())));
    }
    if let Some(v) = e.identity() {
        ck.same("identity", d, &Expr::var(v), |a| ev(e, a));
    }
    for var in 0..NVARS as isize {
        if let Some(inc) = e.inc_of(var) {
            ck.same("inc_of", d, &Expr::var(var).add(&inc), |a| ev(e, a));
        }
        if let Some((rest, mul)) = e.prod_inc_of(var) {
            ck.same("prod_inc_of", d, &Expr::val(mul).mul(Expr::var(var)).add(&rest), |a| ev(e, a));
        }
        if let Some(c) = e.const_inc_of(var) {
            ck.same("const_inc_of", d, &Expr::var(var).add(Expr::val(c)), |a| ev(e, a));
        }
        if let Some(p) = e.prod_of(var) {
            ck.same("prod_of", d, &Expr::var(var).mul(&p), |a| ev(e, a));
        }
    }
    // Eq/Hash normal form: structurally equal expressions must evaluate equally is trivial; the
    // converse used by the optimiser: an expression equal to its normalised self keeps its value
}

fn binary<C: CellType>(ck: &mut Checker<C>, x: &Expr<C>, y: &Expr<C>) -> (Expr<C>, Expr<C>) {
    let d = || format!("`{x:?}` , `{y:?}`");
    let s = x.add(y);
    ck.same("add", d, &s, |a| ev(x, a).wrapping_add(ev(y, a)));
    let p = x.mul(y);
    ck.same("mul", d, &p, |a| ev(x, a).wrapping_mul(ev(y, a)));
    (s, p)
}

/// Substitution: replace variable 0 by `y` (and optionally variable 1 by itself).
fn subst<C: CellType>(ck: &mut Checker<C>, x: &Expr<C>, y: &Expr<C>) -> Option<Expr<C>> {
    let r = x.symb_evaluate(|v| if v == 0 { Some(y.clone()) } else { Some(Expr::var(v)) })?;
    let d = || format!("`{x:?}` [0 := `{y:?}`]");
    ck.same("symb_evaluate", d, &r, |a| {
        let mut b = *a;
        b[0] = ev(y, a);
        ev(x, &b)
    });
    Some(r)
}

/// The hash containers `split_along` takes live in a private module of hpbf: they can only be named
/// through inference (they implement `Default` and deref to the std containers).
fn make_set<S, H>(items: &[isize]) -> S
where
    S: Default + std::ops::DerefMut<Target = std::collections::HashSet<isize, H>>,
    H: std::hash::BuildHasher,
{
    let mut set = S::default();
    for &i in items {
        set.insert(i);
    }
    set
}

fn make_map<C: CellType, M, H>(items: &[(isize, Expr<C>)]) -> M
where
    M: Default + std::ops::DerefMut<Target = std::collections::HashMap<isize, Expr<C>, H>>,
    H: std::hash::BuildHasher,
{
    let mut map = M::default();
    for (k, v) in items {
        map.insert(*k, v.clone());
    }
    map
}

/// split_along(constant, linear): for every partition of the three variables into constant / linear /
/// neither and every step from a small set (1, 16, 2^(w-1), 2^(w-4), a constant variable, 16 times a constant variable):
/// const + other + sum of the linear parts' initial values recomposes to the expression; the constant
/// part only mentions constant variables; each increment equals the part's coefficient expression
/// (the part at x = 1) times the step of its linear variable.
fn split<C: CellType>(ck: &mut Checker<C>, e: &Expr<C>) {
    let full_asg = ck.asg;
    ck.asg = ck.split_asg;
    split_inner(ck, e);
    ck.asg = full_asg;
}

fn split_inner<C: CellType>(ck: &mut Checker<C>, e: &Expr<C>) {
    let half = C::ONE.wrapping_shl(C::BITS - 1);
    let steps: Vec<Expr<C>> = vec![
        Expr::val(C::ONE),
        Expr::val(C::from_u64(16)),
        Expr::val(half),
        Expr::val(C::ONE.wrapping_shl(C::BITS - 4)),
    ];
    // role of each variable: 0 = constant, 1 = linear, 2 = neither
    for roles in 0..27u32 {
        let role = |v: usize| (roles / 3u32.pow(v as u32)) % 3;
        let constant: Vec<isize> = (0..NVARS).filter(|&v| role(v) == 0).map(|v| v as isize).collect();
        let lin_vars: Vec<isize> = (0..NVARS).filter(|&v| role(v) == 1).map(|v| v as isize).collect();
        if lin_vars.is_empty() {
            continue;
        }
        let mut step_sets: Vec<Vec<Expr<C>>> = steps.iter().map(|s| vec![s.clone(); lin_vars.len()]).collect();
        if let Some(&cv) = constant.first() {
            step_sets.push(vec![Expr::var(cv); lin_vars.len()]);
            step_sets.push(vec![Expr::var(cv).mul(Expr::val(C::from_u64(16))); lin_vars.len()]);
        }
        for st in step_sets {
            let linear: Vec<(isize, Expr<C>)> = lin_vars.iter().copied().zip(st.into_iter()).collect();
            let (c, o, lin) = e.split_along(&make_set(&constant), &make_map(&linear));
            let d = || format!("`{e:?}` split_along(constant {constant:?}, linear {linear:?})");
            let mut sum = c.add(&o);
            for (initial, _) in &lin {
                sum = sum.add(initial);
            }
            ck.same("split_along", d, &sum, |a| ev(e, a));
            if c.variables().any(|v| !constant.contains(&v)) {
                ck.errors.push(("split_along".into(), format!("{}: constant part `{c:?}` mentions a non-constant variable", d())));
            }
            for (initial, increment) in &lin {
                let Some(x) = initial.variables().find(|v| !constant.contains(v)) else {
                    ck.errors.push(("split_along".into(), format!("{}: linear part `{initial:?}` has no linear variable", d())));
                    continue;
                };
                let Some((_, step)) = linear.iter().find(|(v, _)| *v == x) else {
                    ck.errors.push(("split_along".into(), format!("{}: linear part `{initial:?}` is over variable {x}, which is not linear", d())));
                    continue;
                };
                ck.same("split_along", || format!("{} increment of `{initial:?}`", d()), increment, |a| {
                    let mut b = *a;
                    b[x as usize] = C::ONE;
                    ev(initial, &b).wrapping_mul(ev(step, a))
                });
            }
        }
    }
}

struct Plan {
    depth: usize,
    pool_cap: usize,
    full_grid: bool,
    widths: Vec<u32>,
}

fn plan(tier: Tier) -> Plan {
    match tier {
        Tier::Quick => Plan { depth: 3, pool_cap: 300, full_grid: false, widths: vec![8, 16, 32, 64] },
        Tier::Thorough => Plan { depth: 3, pool_cap: 600, full_grid: true, widths: vec![8, 16, 32, 64] },
    }
}

fn explore<C: CellType>(ctx: &mut WorkerCtx, p: &Plan, only_pair: Option<u64>) {
    let asg_full = assignments::<C>(p.full_grid);
    let asg_small = assignments::<C>(false);
    let asg_split: Vec<[C; NVARS]> = asg_small.iter().step_by(29).copied().collect();
    let mut pool: Vec<Expr<C>> = Vec::new();
    let mut seen: HashSet<Expr<C>> = HashSet::new();
    for c in consts::<C>() {
        let e = Expr::val(c);
        if seen.insert(e.clone()) {
            pool.push(e);
        }
    }
    for v in 0..NVARS as isize {
        let e = Expr::var(v);
        if seen.insert(e.clone()) {
            pool.push(e);
        }
    }
    let (shard, nshards) = if ctx.only.is_some() { (0, 1) } else { (ctx.shard, ctx.nshards) };
    let mut pair_idx = 0u64;
    let mut mine_count = 0u64;
    for depth in 1..=p.depth {
        let last = depth == p.depth;
        let n = pool.len();
        // the complete 8-bit grid is used on the first two levels; the boundary grid afterwards
        let asg = if depth <= 2 { &asg_full } else { &asg_small };
        let mut next: Vec<Expr<C>> = Vec::new();
        for i in 0..n {
            for j in 0..n {
                pair_idx += 1;
                // every worker builds the pool identically; checks are split by pair index
                let mine = match only_pair {
                    Some(t) => pair_idx == t,
                    None => pair_idx % nshards == shard,
                };
                let (x, y) = (&pool[i], &pool[j]);
                let mut ck = Checker { asg: if mine { &asg[..] } else { &asg[..0] }, split_asg: &asg_split[..], errors: Vec::new(), evals: 0 };
                if mine {
                    mine_count += 1;
                }
                if mine && mine_count % 512 == 1 {
                    ctx.mark(pair_idx, C::BITS as u64, format!("{x:?} , {y:?}").as_bytes());
                }
                let (s, pr) = binary(&mut ck, x, y);
                let sub = subst(&mut ck, x, y);
                let mut results = vec![s, pr];
                if let Some(r) = sub {
                    results.push(r);
                }
                if j == 0 {
                    results.push(x.neg());
                    results.push(x.clone().normalize());
                    if let Some(h) = x.half() {
                        results.push(h);
                    }
                }
                for r in &results {
                    if mine {
                        unary(&mut ck, r);
                        split(&mut ck, r);
                    }
                }
                if mine {
                    ctx.count("evaluations", ck.evals);
                    ctx.count("transitions", results.len() as u64);
                    for (what, e) in ck.errors.drain(..) {
                        let key = format!("C15|{}|{what}|{x:?}|{y:?}", C::BITS);
                        ctx.fail(
                            J::obj()
                                .set("property", "C15")
                                .set("kind", "expr")
                                .set("key", key)
                                .set("class", "wrong-value")
                                .set("width", C::BITS)
                                .set("what", what)
                                .set("pair_index", pair_idx)
                                .set("x", format!("{x:?}"))
                                .set("y", format!("{y:?}"))
                                .set("observed", e),
                        );
                    }
                }
                if !last {
                    for r in results {
                        if next.len() + pool.len() < p.pool_cap && seen.insert(r.clone()) {
                            next.push(r);
                        }
                    }
                } else if mine {
                    for r in results {
                        ctx.distinct(fnv(format!("{}:{r:?}", C::BITS).as_bytes()));
                        ctx.count("states", 1);
                    }
                }
            }
        }
        pool.extend(next);
    }
    ctx.maxstat(&format!("pool_{}", C::BITS), pool.len() as u64);
    if shard == 0 {
        let k = pool.len();
        ctx.sample(|| J::obj().set("width", C::BITS).set("pool_size", k).set("example", format!("{:?}", pool[k - 1])).set("assignments", asg_full.len()));
    }
}

pub fn worker(ctx: &mut WorkerCtx) {
    let p = plan(ctx.tier);
    for &w in &p.widths {
        match w {
            8 => explore::<u8>(ctx, &p, None),
            16 => explore::<u16>(ctx, &p, None),
            32 => explore::<u32>(ctx, &p, None),
            _ => explore::<u64>(ctx, &p, None),
        }
    }
}

pub fn info(tier: Tier) -> CheckInfo {
    let p = plan(tier);
    CheckInfo {
        id: "C15",
        level: "model_checking",
        rule: format!(
            "Breadth-first closure of the public ir::Expr API from the atoms val(c), c in {{0,1,2,3,-1,2^(w-1),2^(w-1)±1}} and var(0..2), \
             deduplicated on the expression's own Eq/Hash: the closure is computed level by level to depth 3: all ordered pairs of pool members under add, mul and \
             substitution symb_evaluate[0:=y], plus neg, normalize, half of every member; new results join the pool (capped at {} members in \
             enumeration order; the cap binds from the second level on and is part of the bound). Every result \
             is evaluated under {} and compared with the arithmetic on the operands' values; on every result neg, normalize, half \
             (doubling must give the value back) and every decomposition that answers (constant, constant_part, identity, inc_of, \
             prod_inc_of, const_inc_of, prod_of for each variable) must recompose to the same value under all assignments. widths {:?}. \
             evaluations = concrete evaluations compared; states = expressions produced at the last level; transitions = API results \
             checked; distinct = distinct printed results.",
            p.pool_cap,
            if p.full_grid { "all 65 536 assignments of two 8-bit variables (third derived) plus a boundary grid; boundary grids (20x20x5) at wider cells" } else { "a 20x20x5 boundary grid (0,1,2,3,5,7,8,16,127..129,255, 2^(w-1)±1, MAX, MAX-1, MAX/3, alternating bits)" },
            p.widths
        ),
        assumptions: vec![
            "the second level is complete over the capped pool, not over all first-level results when the cap is hit (exhaustive only up to the cap)".into(),
        ],
        bounds: J::obj().set("depth", p.depth).set("pool_cap", p.pool_cap).set("widths", p.widths.iter().map(|&w| w as u64).collect::<Vec<_>>()),
        exhaustive: false,
        hang_secs: 120,
    }
}

pub fn replay_case(j: &J) -> (bool, String) {
    // expressions are rebuilt by re-running the (deterministic) exploration of that width on one shard
    let tier = Tier::parse(j.str("tier").unwrap_or("quick")).unwrap_or(Tier::Quick);
    let mut ctx = crate::framework::collector_ctx("C15", tier);
    ctx.only = Some(0);
    let p = plan(tier);
    // rebuild the (deterministic) pool, but evaluate only the recorded pair
    let pair = j.int("pair_index").map(|x| x as u64);
    match j.int("width").unwrap_or(8) {
        8 => explore::<u8>(&mut ctx, &p, pair),
        16 => explore::<u16>(&mut ctx, &p, pair),
        32 => explore::<u32>(&mut ctx, &p, pair),
        _ => explore::<u64>(&mut ctx, &p, pair),
    }
    let key = j.str("key").unwrap_or("");
    let got = ctx.collected.unwrap_or_default();
    (got.iter().any(|g| g.str("key") == Some(key)), format!("{} failures in the re-exploration", got.len()))
}
