//! C18: the inline small vector behaves like `Vec` and drops each element exactly once.
//!
//! Every operation sequence up to a depth, from every constructor, for inline capacities 1 and
//! 2, with plain integers and with drop-tracked elements. Oracle: a `Vec` model after every step
//! and a drop ledger at the end of the history.

use std::cell::RefCell;
use std::collections::HashMap;

use hpbf::verif::SmallVec;

use crate::framework::{fnv, CheckInfo, Tier, WorkerCtx};
use crate::json::J;

thread_local! {
    static LEDGER: RefCell<Ledger> = RefCell::new(Ledger::default());
}

#[derive(Default)]
struct Ledger {
    next: u32,
    drops: HashMap<u32, u32>,
    bogus: u32,
}

#[derive(Debug)]
struct Tracked {
    id: u32,
    val: u8,
}

impl Tracked {
    fn new(val: u8) -> Self {
        LEDGER.with(|l| {
            let mut l = l.borrow_mut();
            let id = l.next;
            l.next += 1;
            l.drops.insert(id, 0);
            Tracked { id, val }
        })
    }
}

impl Clone for Tracked {
    fn clone(&self) -> Self {
        Tracked::new(self.val)
    }
}

impl Drop for Tracked {
    fn drop(&mut self) {
        LEDGER.with(|l| {
            let mut l = l.borrow_mut();
            match l.drops.get_mut(&self.id) {
                Some(c) => *c += 1,
                None => l.bogus += 1,
            }
        })
    }
}

impl PartialEq for Tracked {
    fn eq(&self, o: &Self) -> bool {
        self.val == o.val
    }
}
impl Eq for Tracked {}
impl PartialOrd for Tracked {
    fn partial_cmp(&self, o: &Self) -> Option<std::cmp::Ordering> {
        Some(self.cmp(o))
    }
}
impl Ord for Tracked {
    fn cmp(&self, o: &Self) -> std::cmp::Ordering {
        self.val.cmp(&o.val)
    }
}

trait Elem: Clone + Ord + std::fmt::Debug {
    fn make(v: u8) -> Self;
    fn val(&self) -> u8;
    fn bump(&mut self);
}
impl Elem for u8 {
    fn make(v: u8) -> Self {
        v
    }
    fn val(&self) -> u8 {
        *self
    }
    fn bump(&mut self) {
        *self = (*self + 1) % 3;
    }
}
impl Elem for Tracked {
    fn make(v: u8) -> Self {
        Tracked::new(v)
    }
    fn val(&self) -> u8 {
        self.val
    }
    fn bump(&mut self) {
        self.val = (self.val + 1) % 3;
    }
}

#[derive(Clone, Copy, PartialEq, Eq, Debug)]
pub enum Start {
    New,
    Cap0,
    CapN,
    CapN1,
    Cap5,
    With,
    WithAll3,
    FromVec,
}
const STARTS: [Start; 8] = [Start::New, Start::Cap0, Start::CapN, Start::CapN1, Start::Cap5, Start::With, Start::WithAll3, Start::FromVec];

#[derive(Clone, Copy, PartialEq, Eq, Debug)]
pub enum Op {
    Push(u8),
    Extend2,
    Clear,
    RetainEven,
    RetainNone,
    RetainAll,
    RetainMutBumpOdd,
    Dedup,
    Sort,
    CloneSwap,
    CloneDrop,
    CmpClone,
    IterRef,
    IntoIterAll,
    IntoIterTake1,
    IndexMutFirst,
}
const OPS: [Op; 17] = [
    Op::Push(0),
    Op::Push(1),
    Op::Extend2,
    Op::Clear,
    Op::RetainEven,
    Op::RetainNone,
    Op::RetainAll,
    Op::RetainMutBumpOdd,
    Op::Dedup,
    Op::Sort,
    Op::CloneSwap,
    Op::CloneDrop,
    Op::CmpClone,
    Op::IterRef,
    Op::IntoIterAll,
    Op::IntoIterTake1,
    Op::IndexMutFirst,
];

fn vals<T: Elem>(s: &[T]) -> Vec<u8> {
    s.iter().map(|x| x.val()).collect()
}

fn start<T: Elem, const N: usize>(s: Start) -> (SmallVec<T, N>, Vec<T>) {
    match s {
        Start::New => (SmallVec::new(), Vec::new()),
        Start::Cap0 => (SmallVec::with_capacity(0), Vec::new()),
        Start::CapN => (SmallVec::with_capacity(N), Vec::new()),
        Start::CapN1 => (SmallVec::with_capacity(N + 1), Vec::new()),
        Start::Cap5 => (SmallVec::with_capacity(5), Vec::new()),
        Start::With => (SmallVec::with(T::make(1)), vec![T::make(1)]),
        Start::WithAll3 => (SmallVec::with_all([T::make(2), T::make(1), T::make(1)]), vec![T::make(2), T::make(1), T::make(1)]),
        Start::FromVec => (SmallVec::from_vec(vec![T::make(0), T::make(0)]), vec![T::make(0), T::make(0)]),
    }
}

/// Apply one operation to the subject and to the model; returns an error description on mismatch.
fn step<T: Elem, const N: usize>(sv: &mut SmallVec<T, N>, model: &mut Vec<T>, op: Op) -> Option<String> {
    match op {
        Op::Push(v) => {
            sv.push(T::make(v));
            model.push(T::make(v));
        }
        Op::Extend2 => {
            sv.extend([T::make(2), T::make(2)].into_iter());
            model.extend([T::make(2), T::make(2)]);
        }
        Op::Clear => {
            sv.clear();
            model.clear();
        }
        Op::RetainEven => {
            sv.retain(|x| x.val() % 2 == 0);
            model.retain(|x| x.val() % 2 == 0);
        }
        Op::RetainNone => {
            sv.retain(|_| false);
            model.retain(|_| false);
        }
        Op::RetainAll => {
            sv.retain(|_| true);
            model.retain(|_| true);
        }
        Op::RetainMutBumpOdd => {
            sv.retain_mut(|x| {
                x.bump();
                x.val() % 2 == 1
            });
            model.retain_mut(|x| {
                x.bump();
                x.val() % 2 == 1
            });
        }
        Op::Dedup => {
            sv.dedup();
            model.dedup();
        }
        Op::Sort => {
            sv.sort();
            model.sort();
        }
        Op::CloneSwap => {
            let c = sv.clone();
            if vals(&c) != vals(model) {
                return Some(format!("clone has {:?}, model {:?}", vals(&c), vals(model)));
            }
            let old = std::mem::replace(sv, c);
            drop(old);
        }
        Op::CloneDrop => {
            let c = sv.clone();
            if vals(&c) != vals(model) {
                return Some(format!("clone has {:?}, model {:?}", vals(&c), vals(model)));
            }
            drop(c);
        }
        Op::CmpClone => {
            let c = sv.clone();
            if c != *sv || c.cmp(sv) != std::cmp::Ordering::Equal {
                return Some("a clone does not compare equal".into());
            }
            let mut bigger = sv.clone();
            bigger.push(T::make(0));
            let mut mb = model.clone();
            mb.push(T::make(0));
            if bigger.cmp(sv) != mb.cmp(model) || (bigger == *sv) != (mb == *model) {
                return Some("comparison with a longer vector differs from Vec".into());
            }
            // a panel of other vectors (shorter / longer, smaller / larger at the first difference), each built
            // in the inline-first and in the heap representation: ==, cmp and partial_cmp as for Vec
            const PANEL: [&[u8]; 9] = [&[], &[0], &[1], &[2], &[0, 0], &[0, 2], &[1, 0], &[2, 1, 1], &[0, 0, 0, 0]];
            for other in PANEL {
                let mo: Vec<T> = other.iter().map(|&v| T::make(v)).collect();
                for heap in [false, true] {
                    let mut so: SmallVec<T, N> = if heap { SmallVec::with_capacity(N + 3) } else { SmallVec::new() };
                    for &v in other {
                        so.push(T::make(v));
                    }
                    let (a, b): (&SmallVec<T, N>, &Vec<T>) = (&*sv, &*model);
                    if a.cmp(&so) != b.cmp(&mo)
                        || so.cmp(a) != mo.cmp(b)
                        || a.partial_cmp(&so) != b.partial_cmp(&mo)
                        || (*a == so) != (*b == mo)
                        || (*a < so) != (*b < mo)
                    {
                        return Some(format!(
                            "comparison of {:?} with {:?} ({}): cmp {:?}, Vec {:?}",
                            vals(model),
                            other,
                            if heap { "heap capacity" } else { "inline first" },
                            a.cmp(&so),
                            b.cmp(&mo)
                        ));
                    }
                }
            }
        }
        Op::IterRef => {
            let a: Vec<u8> = (&*sv).into_iter().map(|x| x.val()).collect();
            if a != vals(model) {
                return Some(format!("by-reference iteration yields {a:?}, model {:?}", vals(model)));
            }
            if sv.len() != model.len() || sv.is_empty() != model.is_empty() {
                return Some("len/is_empty differ".into());
            }
            for x in sv.iter_mut() {
                let _ = x.val();
            }
        }
        Op::IntoIterAll => {
            let taken = std::mem::replace(sv, SmallVec::new());
            let a: Vec<u8> = taken.into_iter().map(|x| x.val()).collect();
            let b: Vec<u8> = std::mem::take(model).into_iter().map(|x| x.val()).collect();
            if a != b {
                return Some(format!("by-value iteration yields {a:?}, model {b:?}"));
            }
        }
        Op::IntoIterTake1 => {
            let taken = std::mem::replace(sv, SmallVec::new());
            let mut it = taken.into_iter();
            let a = it.next().map(|x| x.val());
            drop(it);
            let mut mit = std::mem::take(model).into_iter();
            let b = mit.next().map(|x| x.val());
            drop(mit);
            if a != b {
                return Some(format!("first by-value element {a:?}, model {b:?}"));
            }
        }
        Op::IndexMutFirst => {
            if !model.is_empty() {
                sv[0].bump();
                model[0].bump();
            }
        }
    }
    if vals(sv) != vals(model) {
        return Some(format!("after {op:?}: contents {:?}, model {:?}", vals(sv), vals(model)));
    }
    None
}

fn run_history<T: Elem, const N: usize>(st: Start, ops: &[Op]) -> Option<String> {
    LEDGER.with(|l| *l.borrow_mut() = Ledger::default());
    let mut err = None;
    {
        let (mut sv, mut model) = start::<T, N>(st);
        if vals(&sv) != vals(&model) {
            err = Some(format!("constructor {st:?}: contents {:?}, model {:?}", vals(&sv), vals(&model)));
        }
        if err.is_none() {
            for &op in ops {
                if let Some(e) = step(&mut sv, &mut model, op) {
                    err = Some(e);
                    break;
                }
            }
        }
    }
    if err.is_some() {
        return err;
    }
    LEDGER.with(|l| {
        let l = l.borrow();
        if l.bogus != 0 {
            return Some(format!("{} drops of elements that were never created", l.bogus));
        }
        let leaked = l.drops.values().filter(|&&c| c == 0).count();
        let double = l.drops.values().filter(|&&c| c > 1).count();
        if double != 0 {
            Some(format!("{double} element(s) dropped more than once"))
        } else if leaked != 0 {
            Some(format!("{leaked} element(s) never dropped (leak)"))
        } else {
            None
        }
    })
}

fn ops_str(ops: &[Op]) -> String {
    ops.iter().map(|o| format!("{o:?}")).collect::<Vec<_>>().join(",")
}

fn judge(ctx: &mut WorkerCtx, n: usize, tracked: bool, st: Start, ops: &[Op]) {
    let r = match (n, tracked) {
        (1, false) => run_history::<u8, 1>(st, ops),
        (1, true) => run_history::<Tracked, 1>(st, ops),
        (2, false) => run_history::<u8, 2>(st, ops),
        _ => run_history::<Tracked, 2>(st, ops),
    };
    ctx.count("evaluations", 1);
    ctx.count("transitions", ops.len() as u64);
    if let Some(e) = r {
        let class = if e.contains("leak") {
            "leak"
        } else if e.contains("more than once") || e.contains("never created") {
            "double-drop"
        } else {
            "contents"
        };
        let key = format!("C18|N{n}|{}|{st:?}|{}", if tracked { "tracked" } else { "u8" }, ops_str(ops));
        ctx.fail(
            J::obj()
                .set("property", "C18")
                .set("kind", "smallvec")
                .set("key", key)
                .set("class", class)
                .set("capacity", n)
                .set("tracked", tracked)
                .set("start", format!("{st:?}"))
                .set("ops", ops_str(ops))
                .set("observed", e),
        );
    }
}

fn plan(tier: Tier) -> usize {
    match tier {
        Tier::Quick => 5,
        Tier::Thorough => 7,
    }
}

pub fn worker(ctx: &mut WorkerCtx) {
    let depth = plan(ctx.tier);
    let mut idx = 0u64;
    let mut owned = 0u64;
    let nops = OPS.len() as u64;
    for len in 0..=depth {
        let total = nops.pow(len as u32);
        for i in 0..total {
            if ctx.owns(idx) {
                let mut ops = Vec::with_capacity(len);
                let mut k = i;
                for _ in 0..len {
                    ops.push(OPS[(k % nops) as usize]);
                    k /= nops;
                }
                owned += 1;
                if owned % 256 == 1 {
                    ctx.mark(idx, 0, ops_str(&ops).as_bytes());
                }
                for st in STARTS {
                    for n in [1usize, 2] {
                        // plain integers share the code paths; run them on the shorter histories only
                        if len + 1 < depth || len == 0 {
                            judge(ctx, n, false, st, &ops);
                        }
                        judge(ctx, n, true, st, &ops);
                    }
                }
                if len >= 2 {
                    ctx.distinct(fnv(ops_str(&ops).as_bytes()));
                }
                if len == 3 && i % 997 == 0 {
                    ctx.sample(|| J::obj().set("start", "WithAll3").set("capacity", 2).set("ops", ops_str(&ops)));
                }
            }
            idx += 1;
        }
    }
}

fn parse_op(s: &str) -> Option<Op> {
    OPS.iter().copied().find(|o| format!("{o:?}") == s)
}

pub fn replay_case(j: &J) -> (bool, String) {
    let n = j.int("capacity").unwrap_or(1) as usize;
    let tracked = matches!(j.get("tracked"), Some(J::Bool(true)));
    let st = STARTS.iter().copied().find(|s| Some(format!("{s:?}").as_str()) == j.str("start")).unwrap_or(Start::New);
    let ops: Vec<Op> = j.str("ops").unwrap_or("").split(',').filter_map(parse_op).collect();
    let mut ctx = crate::framework::collector_ctx("C18", Tier::Quick);
    judge(&mut ctx, n, tracked, st, &ops);
    let got = ctx.collected.unwrap_or_default();
    match got.first() {
        Some(g) => (g.str("class") == j.str("class"), g.str("observed").unwrap_or("").to_string()),
        None => (false, "passes now".into()),
    }
}

pub fn info(tier: Tier) -> CheckInfo {
    let depth = plan(tier);
    CheckInfo {
        id: "C18",
        level: "model_checking",
        rule: format!(
            "Every operation sequence up to depth {} over {} operations (push 0/1, extend with two equal elements, clear, retain \
             even/none/all, retain_mut with mutation, dedup, sort through DerefMut, clone-and-swap, clone-and-drop, eq/cmp against a \
             clone and a longer clone, by-reference iteration, by-value iteration to the end, by-value iteration abandoned after one \
             element, IndexMut), from each of {} constructors (new, with_capacity(0|N|N+1|5), with, with_all of 3, from_vec), for inline \
             capacities N in {{1,2}}, with drop-tracked elements (and plain u8 on the shorter histories). Values come from {{0,1,2}} so \
             dedup/sort collisions are forced. Oracle: the slice view equals a Vec model after every step; at the end of the history \
             every created element id was dropped exactly once (ledger). evaluations = histories run, transitions = operations applied; \
             distinct = distinct operation sequences of length >= 2.",
            depth, OPS.len(), STARTS.len()
        ),
        assumptions: vec!["panics inside predicates (documented to miss drops) are outside the property and not exercised".into()],
        bounds: J::obj().set("depth", depth).set("operations", OPS.len()).set("starts", STARTS.len()).set("capacities", vec![1u64, 2]),
        exhaustive: true,
        hang_secs: 60,
    }
}
