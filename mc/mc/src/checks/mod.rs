//! Registry of checks: property id -> parts (sub-check, build profile), worker, info, replay.

pub mod arith;
pub mod bccheck;
pub mod budget;
pub mod cli;
pub mod compile;
pub mod diverge;
pub mod equiv;
pub mod expr;
pub mod iofault;
pub mod memsafe;
pub mod parser;
pub mod smallvec;
pub mod tape;

use hshim::exec::Backend;

use crate::framework::{CheckInfo, Tier, WorkerCtx};
use crate::json::J;

pub fn parts(prop: &str) -> Option<Vec<(String, &'static str)>> {
    Some(match prop {
        "C01" | "C03" | "C04" | "C05" | "C06" | "C07" | "C08" | "C09" | "C10" | "C16" | "C17" | "C11" | "C12" | "C14" | "C15" | "C18" => {
            vec![(prop.to_string(), "release")]
        }
        "C02" => vec![("C02.release".into(), "release"), ("C02.relda".into(), "relda")],
        "C13" => vec![
            ("C13.total.release".into(), "release"),
            ("C13.total.relda".into(), "relda"),
            ("C13.det".into(), "release"),
            ("C13.reuse".into(), "release"),
            ("C13.scale".into(), "release"),
        ],
        _ => return None,
    })
}

pub fn worker(ctx: &mut WorkerCtx) {
    let check = ctx.check.clone();
    match check.as_str() {
        "C01" => equiv::worker(ctx, "C01", Backend::IrInt),
        "C02.release" | "C02.relda" => equiv::worker(ctx, "C02", Backend::BcInt),
        "C03" => equiv::worker(ctx, "C03", Backend::BaseJit),
        "C04" => equiv::worker(ctx, "C04", Backend::Inplace),
        "C05" => diverge::worker(ctx),
        "C06" => memsafe::c06_worker(ctx),
        "C10" => memsafe::c10_worker(ctx),
        "C17" => memsafe::c17_worker(ctx),
        "C16" => cli::worker(ctx),
        c if c.starts_with("C13.") => compile::worker(ctx),
        "C07" => budget::worker(ctx),
        "C08" => iofault::worker(ctx),
        "C09" => tape::worker(ctx),
        "C11" => bccheck::worker(ctx),
        "C12" => parser::worker(ctx),
        "C14" => arith::worker(ctx),
        "C15" => expr::worker(ctx),
        "C18" => smallvec::worker(ctx),
        other => {
            eprintln!("unknown check {other}");
            std::process::exit(2);
        }
    }
}

pub fn info(prop: &str, tier: Tier) -> CheckInfo {
    match prop {
        "C01" => equiv::info(tier, "C01", Backend::IrInt),
        "C02" => equiv::info(tier, "C02", Backend::BcInt),
        "C03" => equiv::info(tier, "C03", Backend::BaseJit),
        "C04" => equiv::info(tier, "C04", Backend::Inplace),
        "C05" => diverge::info(tier),
        "C06" => memsafe::info("C06", tier),
        "C10" => memsafe::info("C10", tier),
        "C17" => memsafe::info("C17", tier),
        "C13" => compile::info(tier),
        "C16" => cli::info(tier),
        "C07" => budget::info(tier),
        "C08" => iofault::info(tier),
        "C09" => tape::info(tier),
        "C11" => bccheck::info(tier),
        "C12" => parser::info(tier),
        "C14" => arith::info(tier),
        "C15" => expr::info(tier),
        "C18" => smallvec::info(tier),
        _ => unreachable!(),
    }
}

/// Re-run one recorded case without the explorer. Returns (reproduced, description).
pub fn replay(j: &J) -> (bool, String) {
    match j.str("kind") {
        Some("exec") => replay_exec(j),
        Some("parse") => parser::replay(j, Tier::parse(j.str("tier").unwrap_or("quick")).unwrap_or(Tier::Quick)),
        Some("arith") => arith::replay(j),
        Some("tape") => tape::replay_case(j),
        Some("smallvec") => smallvec::replay_case(j),
        Some("expr") => expr::replay_case(j),
        Some("bytecode") => bccheck::replay_case(j),
        Some("compile") => compile::replay_case(j),
        Some("cli") => cli::replay_case(j),
        Some("shard") => {
            let sub = j.str("check").unwrap_or("");
            let tier = Tier::parse(j.str("tier").unwrap_or("quick")).unwrap_or(Tier::Quick);
            let exe = format!("{}/{}/mc", crate::target_dir(), j.str("exe_profile").unwrap_or("release"));
            let how = crate::framework::run_shard(&exe, sub, tier, j.int("shard").unwrap_or(0) as u64, j.int("nshards").unwrap_or(1) as u64, 1800);
            (how != "ok", format!("shard of {sub}: {how}"))
        }
        Some("case") => {
            let sub = j.str("check").unwrap_or("");
            let tier = Tier::parse(j.str("tier").unwrap_or("quick")).unwrap_or(Tier::Quick);
            let idx = j.int("idx").unwrap_or(0) as u64;
            let exe = format!("{}/{}/mc", crate::target_dir(), j.str("exe_profile").unwrap_or("release"));
            let (lines, how) = crate::framework::run_one(&exe, sub, tier, idx, 60);
            let bad = how != "ok" || lines.iter().any(|l| l.starts_with("V\t"));
            (bad, format!("case {idx} of {sub}: {how}"))
        }
        _ => (false, "unknown replay kind".into()),
    }
}

fn replay_exec(j: &J) -> (bool, String) {
    // re-judge the recorded program with the recorded check and tier; the violation is
    // reproduced if a failure with the same key and class comes out again
    let prop = j.str("property").unwrap_or("");
    let check = j.str("check").unwrap_or(prop).to_string();
    let tier = Tier::parse(j.str("tier").unwrap_or("quick")).unwrap_or(Tier::Quick);
    let program = j.str("program").unwrap_or("").as_bytes().to_vec();
    let key = j.str("key").unwrap_or("");
    let class = j.str("class").unwrap_or("");
    let mut ctx = crate::framework::collector_ctx(&check, tier);
    match prop {
        "C01" => equiv::replay_program(&mut ctx, "C01", Backend::IrInt, &program),
        "C02" => equiv::replay_program(&mut ctx, "C02", Backend::BcInt, &program),
        "C03" => equiv::replay_program(&mut ctx, "C03", Backend::BaseJit, &program),
        "C04" => equiv::replay_program(&mut ctx, "C04", Backend::Inplace, &program),
        "C05" => diverge::replay_program(&mut ctx, &program),
        "C07" => budget::replay_program(&mut ctx, &program),
        "C06" | "C10" | "C16" | "C17" => memsafe::replay_program(&mut ctx, prop, &program),
        "C08" => iofault::replay_program(&mut ctx, &program),
        _ => return (false, format!("no replay for property {prop}")),
    }
    let got = ctx.collected.unwrap_or_default();
    for g in &got {
        if g.str("key") == Some(key) {
            let c = g.str("class").unwrap_or("");
            return (true, format!("class={c} (recorded {class}) observed={}", g.str("observed").unwrap_or("")));
        }
    }
    if let Some(g) = got.first() {
        // the same program still violates the same property, but shows it differently (wild memory
        // accesses depend on the address-space layout of the process): still a reproduction
        return (
            true,
            format!(
                "different manifestation: {} failures for this program, first class={} key={}",
                got.len(),
                g.str("class").unwrap_or(""),
                g.str("key").unwrap_or("")
            ),
        );
    }
    (false, "case passes now".to_string())
}
