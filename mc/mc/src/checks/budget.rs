//! C07: budget-limited execution is a faithful finite prefix of the real run.

use hshim::exec::{compile, Backend, Mode, Width};
use hshim::galloc::Arm;

use crate::diff::{self, failure_json, Failure};
use crate::framework::{fnv, CheckInfo, Tier, WorkerCtx};
use crate::json::J;
use crate::refbf::{self, Canon, Verdict};
use crate::spaces;

struct Plan {
    a_len: usize,
    s_k: usize,
    depth: usize,
    step_cap: u64,
    cycle_top: usize,
    widths: Vec<Width>,
}

fn plan(tier: Tier) -> Plan {
    match tier {
        Tier::Quick => Plan { a_len: 5, s_k: 1, depth: 1, step_cap: 5_000, cycle_top: 20_000, widths: vec![Width::W8, Width::W64] },
        Tier::Thorough => Plan { a_len: 6, s_k: 2, depth: 2, step_cap: 20_000, cycle_top: 200_000, widths: Width::ALL.to_vec() },
    }
}

fn levels(b: Backend) -> Vec<u32> {
    if b == Backend::Inplace {
        vec![0]
    } else {
        vec![0, 1, 2, 3]
    }
}

/// Budget ladder: small values densely (Fibonacci), then geometric up to `top`.
fn ladder(b0: usize, top: usize) -> Vec<usize> {
    let mut v = vec![0usize, 1, 2, 3];
    let (mut a, mut b) = (3usize, 5usize);
    while b < b0.min(top) {
        v.push(b);
        let c = a + b;
        a = b;
        b = c;
    }
    let mut x = b0;
    while x < top {
        v.push(x);
        x = x.saturating_mul(16);
    }
    v.push(top);
    v.sort();
    v.dedup();
    v
}

fn is_prefix_of_canon(log: &[hshim::env::Act], c: &Canon) -> Option<usize> {
    // returns the index of the first disagreement, None if `log` is a prefix of the canonical stream
    for (i, a) in log.iter().enumerate() {
        let e = match c.verdict {
            Verdict::Halt => {
                if i >= c.trace.len() {
                    return Some(i);
                }
                c.trace[i]
            }
            _ => {
                if i < c.trace.len() {
                    c.trace[i]
                } else if c.cyc == 0 {
                    return Some(i);
                } else {
                    refbf::cyclic_action(c, i)
                }
            }
        };
        if *a != e {
            return Some(i);
        }
    }
    None
}

pub fn worker(ctx: &mut WorkerCtx) {
    let p = plan(ctx.tier);
    let mut work: Vec<(u64, Vec<u8>)> = Vec::new();
    let mut base = 0u64;
    for c in spaces::space_r() {
        if ctx.owns(base) {
            work.push((base, c));
        }
        base += 1;
    }
    let b0 = base;
    base += spaces::space_a(p.a_len, &mut |i, c| {
        if ctx.owns(b0 + i) {
            work.push((b0 + i, c.to_vec()));
        }
    });
    let b1 = base;
    base += spaces::space_s(p.s_k, 0, &mut |i, c| {
        if ctx.owns(b1 + i) {
            work.push((b1 + i, c.to_vec()));
        }
    });
    // I/O, stores and moves around shifting at-most-once loops; loops around scans; idiom tokens
    let bi = base;
    base += spaces::space_i(3, &mut |i, c| {
        if ctx.owns(bi + i) {
            work.push((bi + i, c.to_vec()));
        }
    });
    let bn = base;
    base += spaces::space_n(false, 3, &mut |i, c| {
        if ctx.owns(bn + i) {
            work.push((bn + i, c.to_vec()));
        }
    });
    let bb = base;
    base += spaces::space_b(4, &mut |i, c| {
        if ctx.owns(bb + i) {
            work.push((bb + i, c.to_vec()));
        }
    });
    for (_, c) in spaces::space_k() {
        if ctx.owns(base) {
            work.push((base, c));
        }
        base += 1;
    }
    for (idx, code) in work {
        ctx.mark(idx, 0, &code);
        judge_program(ctx, &p, &code);
    }
}

pub fn replay_program(ctx: &mut WorkerCtx, code: &[u8]) {
    let p = plan(ctx.tier);
    judge_program(ctx, &p, code);
}

fn judge_program(ctx: &mut WorkerCtx, p: &Plan, code: &[u8]) {
    let code = code.to_vec();
    {
        ctx.count("programs", 1);
        let text = std::str::from_utf8(&code).unwrap();
        for &w in &p.widths {
            let runs = diff::explore_env(&code, w, p.depth, p.step_cap, true);
            ctx.count("env_nodes", runs.len() as u64);
            let usable: Vec<_> =
                runs.into_iter().filter(|(_, c)| matches!(c.verdict, Verdict::Halt | Verdict::Cycle)).collect();
            if usable.is_empty() {
                ctx.count("skipped_unknown", 1);
                continue;
            }
            for (s, c) in &usable {
                ctx.distinct(fnv(&code) ^ fnv(s).rotate_left(13) ^ ((w.bits() as u64) << 50) ^ ((c.verdict == Verdict::Cycle) as u64) << 49);
            }
            for backend in Backend::ALL {
                for level in levels(backend) {
                    ctx.beat((backend as u64) << 40 | (w.bits() as u64) << 32 | level as u64);
                    let Ok(comp) = compile(backend, w, level, text) else {
                        ctx.count("create_failed", 1);
                        continue;
                    };
                    let mut halt_ok: Option<&(Vec<u8>, Canon)> = None;
                    for sc in &usable {
                        let (script, canon) = sc;
                        let halt = canon.verdict == Verdict::Halt;
                        let steps_basis = if halt { canon.steps } else { canon.steps_to_cycle.max(1) };
                        let b0 = (steps_basis.saturating_mul(4).saturating_add(64)).min(1 << 26) as usize;
                        let top = if halt { b0.saturating_mul(1 << 12) } else { p.cycle_top };
                        let mut finished_at: Option<usize> = None;
                        for budget in ladder(b0, top) {
                            if halt && finished_at.is_some() && budget > b0 * 16 {
                                break;
                            }
                            ctx.count("executions", 1);
                            let cap = if halt { canon.trace.len() + 4 } else { canon.trace.len() + (budget.min(1 << 21) + 2) * code.len() + 64 };
                            let (r, log) = diff::run_logged(&comp, Mode::Limited(budget), script, cap, Arm::default());
                            ctx.count("actions_compared", log.len() as u64);
                            let mk = |class: &str, detail: String, first: usize| Failure {
                                class: class.into(),
                                mode: format!("limited:{budget}"),
                                observed: diff::trace_str(&log[..log.len().min(64)]),
                                expected: diff::trace_str(&canon.trace[..canon.trace.len().min(64)]),
                                first_diff: first,
                                detail,
                            };
                            if let Some(m) = r.panicked {
                                ctx.fail(failure_json("C07", backend, w, level, &code, script, &mk("panic", m, 0)));
                                break;
                            }
                            match r.finished {
                                Some(true) => {
                                    if !halt {
                                        ctx.fail(failure_json("C07", backend, w, level, &code, script,
                                            &mk("finished-divergent", "reports finished for a canonically divergent program".into(), 0)));
                                        break;
                                    }
                                    if let Some((cl, i)) = diff::classify(&log, &canon.trace) {
                                        ctx.fail(failure_json("C07", backend, w, level, &code, script,
                                            &mk(&format!("finished-{cl}"), "reports finished but the events are not the complete canonical sequence".into(), i)));
                                        break;
                                    }
                                    if finished_at.is_none() {
                                        finished_at = Some(budget);
                                        if halt_ok.is_none() {
                                            halt_ok = Some(sc);
                                        }
                                    }
                                }
                                Some(false) => {
                                    if let Some(i) = is_prefix_of_canon(&log, canon) {
                                        ctx.fail(failure_json("C07", backend, w, level, &code, script,
                                            &mk("interrupted-not-prefix", "interrupted run is not a prefix of the canonical sequence".into(), i)));
                                        break;
                                    }
                                    if finished_at.is_some() {
                                        // not demanded by the property; counted only
                                        ctx.count("non_monotone_rungs", 1);
                                    }
                                }
                                None => {}
                            }
                        }
                        if halt {
                            // effectively unlimited budget: must report finished
                            let big = 1usize << 62;
                            if finished_at.is_some() {
                                ctx.count("executions", 1);
                                let (r, log) = diff::run_logged(&comp, Mode::Limited(big), script, canon.trace.len() + 4, Arm::default());
                                if r.finished != Some(true) || log != canon.trace {
                                    let f = Failure {
                                        class: "unlimited-not-finished".into(),
                                        mode: format!("limited:{big}"),
                                        observed: diff::trace_str(&log),
                                        expected: diff::trace_str(&canon.trace),
                                        first_diff: 0,
                                        detail: format!("finished={:?} with budget 2^62", r.finished),
                                    };
                                    ctx.fail(failure_json("C07", backend, w, level, &code, script, &f));
                                }
                            } else {
                                // never finished on the finite ladder: observe 2^62 under a watchdog
                                let key = diff::case_key("C07", backend, w, level, "limited", &code, script);
                                let known = ctx.known.members.contains_key(&key);
                                let detail;
                                let class;
                                if known {
                                    class = "never-finishes".to_string();
                                    detail = "listed: interrupted at every finite rung".to_string();
                                } else if !diff::may_confirm_hang() {
                                    class = "never-finishes".to_string();
                                    detail = "interrupted at every finite rung up to 4096*B0 (2^62 run skipped after several confirmed cases in this worker)".to_string();
                                } else {
                                    ctx.count("executions", 1);
                                    match diff::run_isolated(&comp, Mode::Limited(big), script, canon.trace.len() + 4, None, true, Arm::default(), 2000) {
                                        diff::IsoOutcome::Ran(x) if x.finished == Some(true) && x.log == canon.trace => continue,
                                        diff::IsoOutcome::Ran(x) => {
                                            class = "never-finishes".to_string();
                                            detail = format!("budget 2^62: finished={:?}, log {}", x.finished, diff::trace_str(&x.log));
                                        }
                                        diff::IsoOutcome::Hang => {
                                            class = "never-finishes".to_string();
                                            detail = "budget 2^62: no return within 2 s".to_string();
                                        }
                                        diff::IsoOutcome::Crash(s) => {
                                            class = "crash".to_string();
                                            detail = s;
                                        }
                                    }
                                }
                                let f = Failure {
                                    class,
                                    mode: format!("limited:{big}"),
                                    observed: String::new(),
                                    expected: diff::trace_str(&canon.trace),
                                    first_diff: 0,
                                    detail,
                                };
                                ctx.fail(failure_json("C07", backend, w, level, &code, script, &f));
                            }
                        }
                    }
                    // history: whether budgets are honoured must not depend on what the executor was used for
                    // before. On a second executor: one plain `execute` of an input that halts (its limited twin
                    // just finished with the complete trace), then limited runs of an input that diverges *while printing* (so that
                    // a run that ignores its budget ends at the sink's cap instead of hanging the worker).
                    if let (Some((hs, hc)), Some((cs, cc))) = (halt_ok, usable.iter().find(|(_, c)| c.verdict == Verdict::Cycle && c.cyc > 0).map(|x| (&x.0, &x.1))) {
                        if let Ok(comp2) = compile(backend, w, level, text) {
                            let (rh, _) = diff::run_logged(&comp2, Mode::Execute, hs, hc.trace.len() + 4, Arm::default());
                            ctx.count("executions", 1);
                            if rh.panicked.is_none() {
                                for budget in [0usize, 2, 64] {
                                    ctx.count("executions", 1);
                                    ctx.count("history_runs", 1);
                                    let cap = cc.trace.len() + (budget + 2) * code.len() + 64;
                                    let (r, log) = diff::run_logged(&comp2, Mode::Limited(budget), cs, cap, Arm::default());
                                    let mk = |class: &str, detail: &str, first: usize| Failure {
                                        class: class.into(),
                                        mode: format!("execute-then-limited:{budget}"),
                                        observed: diff::trace_str(&log[..log.len().min(64)]),
                                        expected: diff::trace_str(&cc.trace[..cc.trace.len().min(64)]),
                                        first_diff: first,
                                        detail: format!("{detail} (after a plain execute of input {} on the same executor)", diff::script_hex(hs)),
                                    };
                                    if r.finished == Some(true) {
                                        ctx.fail(failure_json("C07", backend, w, level, &code, cs, &mk("finished-divergent", "reports finished for a canonically divergent program", 0)));
                                        break;
                                    } else if let Some(i) = is_prefix_of_canon(&log, cc) {
                                        ctx.fail(failure_json("C07", backend, w, level, &code, cs, &mk("interrupted-not-prefix", "interrupted run is not a prefix of the canonical sequence", i)));
                                        break;
                                    } else if log.len() >= cap {
                                        ctx.fail(failure_json("C07", backend, w, level, &code, cs, &mk("not-bounded-by-budget", "more events than any run within this budget can produce", log.len())));
                                        break;
                                    }
                                }
                            }
                        }
                    }
                }
            }
            ctx.sample(|| {
                let (s, c) = &usable[usable.len() - 1];
                J::obj()
                    .set("program", text)
                    .set("width", w.bits())
                    .set("script", diff::script_hex(s))
                    .set("canonical_verdict", format!("{:?}", c.verdict))
                    .set("canonical_trace", diff::trace_str(&c.trace[..c.trace.len().min(16)]))
                    .set("budgets", ladder((4 * c.steps + 64) as usize, 100_000).iter().map(|&b| b as u64).collect::<Vec<_>>())
            });
        }
    }
}

pub fn info(tier: Tier) -> CheckInfo {
    let p = plan(tier);
    CheckInfo {
        id: "C07",
        level: "model_checking",
        rule: format!(
            "Bounded exhaustive: every balanced program of A(len<={}), S(1,{}), I(3) (loops around shifting at-most-once loops with I/O), N(3) (loops around scans), B(4) (idiom tokens), the regression corpus and K, at each width, over the input \
             choice tree (depth {}), whose canonical run halts or provably cycles (exact state repetition) within {} steps; each is run \
             through execute_limited on all four backends and levels 0..3 at every budget of a ladder (0,1,2,3, Fibonacci up to \
             B0=4*steps+64, then x16 up to 4096*B0 for halting / {} for cyclic programs) and, for halting programs, at 2^62. Oracle \
             (metric-agnostic): finished => complete canonical trace; interrupted => prefix of the canonical (periodic) stream; a \
             cyclic program never finishes; 2^62 => finished. History: on a second executor one plain execute of an input that \
             halts, then execute_limited(0/2/64) of an input that diverges while printing: same oracle, and no more events than the \
             budget allows (what an executor was used for before must not decide whether budgets are honoured). states = choice-tree \
             nodes, transitions = I/O actions compared.",
            p.a_len, p.s_k, p.depth, p.step_cap, p.cycle_top
        ),
        assumptions: vec![
            "refbf with Brent cycle detection on exact machine states is the specification of halting / divergence".into(),
            "'returns in time bounded by the budget' is observed as: every rung returns before the driver's progress watchdog".into(),
        ],
        bounds: J::obj().set("A_max_len", p.a_len).set("S_max_statements", p.s_k).set("input_depth", p.depth).set("step_cap", p.step_cap).set("cycle_ladder_top", p.cycle_top),
        exhaustive: true,
        hang_secs: 30,
    }
}
