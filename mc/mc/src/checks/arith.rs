//! C14: cell arithmetic helpers meet their algebraic contracts at every width.
//!
//! Oracle = the definitions, computed by independent algorithms: Newton–Hensel iteration for the
//! inverse of an odd number (not exponentiation), "smallest x with x*d = n" through the unique
//! solution below 2^(w - tz(d)), powers by running products.

use hpbf::CellType;

use crate::framework::{CheckInfo, Tier, WorkerCtx};
use crate::json::J;

trait Cell: CellType {
    fn mask() -> u64;
}
impl Cell for u8 {
    fn mask() -> u64 {
        0xff
    }
}
impl Cell for u16 {
    fn mask() -> u64 {
        0xffff
    }
}
impl Cell for u32 {
    fn mask() -> u64 {
        0xffff_ffff
    }
}
impl Cell for u64 {
    fn mask() -> u64 {
        u64::MAX
    }
}

/// Inverse of an odd number modulo 2^64 by Newton–Hensel lifting (doubles the correct bits).
fn ref_inv(d: u64) -> u64 {
    let mut x = d; // correct to 3 bits for odd d
    for _ in 0..6 {
        x = x.wrapping_mul(2u64.wrapping_sub(d.wrapping_mul(x)));
    }
    x
}

/// Smallest x with x*d == n (mod 2^w), or None.
fn ref_div(n: u64, d: u64, w: u32) -> Option<u64> {
    let mask = if w == 64 { u64::MAX } else { (1u64 << w) - 1 };
    if n == 0 {
        return Some(0);
    }
    if d == 0 {
        return None;
    }
    let t = d.trailing_zeros();
    if n.trailing_zeros() < t {
        return None;
    }
    // all solutions are congruent modulo 2^(w-t); the smallest is the one below that
    let bits = w - t;
    let m = if bits == 64 { u64::MAX } else { (1u64 << bits) - 1 };
    Some(((n >> t).wrapping_mul(ref_inv(d >> t)) & m) & mask)
}

fn fail(ctx: &mut WorkerCtx, w: u32, op: &str, args: String, expected: String, got: String) {
    let key = format!("C14|{w}|{op}|{args}");
    ctx.fail(
        J::obj()
            .set("property", "C14")
            .set("kind", "arith")
            .set("key", key)
            .set("class", "wrong-value")
            .set("width", w)
            .set("op", op)
            .set("args", args)
            .set("expected", expected)
            .set("observed", got),
    );
}

thread_local! {
    static PANICS: std::cell::RefCell<std::collections::HashMap<(&'static str, u32), u32>> = std::cell::RefCell::new(std::collections::HashMap::new());
}

/// Run one contract check; a panic inside the helper under test is a violation of the contract for
/// these operands (recorded, not fatal for the worker). After 200 panics of one (operation, width) the
/// operation is no longer called at that width: unwinding 2^32 times would never finish.
fn guard(ctx: &mut WorkerCtx, w: u32, op: &'static str, args: &dyn Fn() -> String, f: &mut dyn FnMut(&mut WorkerCtx)) {
    let seen = PANICS.with(|p| p.borrow().get(&(op, w)).copied().unwrap_or(0));
    if seen >= 200 {
        return;
    }
    let r = std::panic::catch_unwind(std::panic::AssertUnwindSafe(|| f(ctx)));
    if let Err(p) = r {
        PANICS.with(|m| *m.borrow_mut().entry((op, w)).or_insert(0) += 1);
        let msg = hshim::exec::panic_message(p);
        fail(ctx, w, op, args(), "a value (no panic)".into(), format!("panic: {msg}"));
    }
}

fn check_div<C: Cell>(ctx: &mut WorkerCtx, n: u64, d: u64) {
    guard(ctx, C::BITS, "wrapping_div", &|| format!("{n},{d}"), &mut |ctx| check_div_inner::<C>(ctx, n, d));
}

fn check_div_inner<C: Cell>(ctx: &mut WorkerCtx, n: u64, d: u64) {
    let got = <C as CellType>::wrapping_div(C::from_u64(n), C::from_u64(d)).map(|x| x.into_u64());
    let exp = ref_div(n & C::mask(), d & C::mask(), C::BITS);
    if got != exp {
        fail(ctx, C::BITS, "wrapping_div", format!("{n},{d}"), format!("{exp:?}"), format!("{got:?}"));
    }
}

fn check_inv<C: Cell>(ctx: &mut WorkerCtx, v: u64) {
    guard(ctx, C::BITS, "wrapping_inv", &|| format!("{v}"), &mut |ctx| check_inv_inner::<C>(ctx, v));
}

fn check_inv_inner<C: Cell>(ctx: &mut WorkerCtx, v: u64) {
    let got = <C as CellType>::wrapping_inv(C::from_u64(v)).map(|x| x.into_u64());
    let exp = if v & 1 == 1 { Some(ref_inv(v) & C::mask()) } else { None };
    if got != exp {
        fail(ctx, C::BITS, "wrapping_inv", format!("{v}"), format!("{exp:?}"), format!("{got:?}"));
    } else if let Some(x) = got {
        if x.wrapping_mul(v) & C::mask() != 1 {
            fail(ctx, C::BITS, "wrapping_inv*self", format!("{v}"), "1".into(), format!("{}", x.wrapping_mul(v) & C::mask()));
        }
    }
}

fn check_conv<C: Cell>(ctx: &mut WorkerCtx, v: u64) {
    guard(ctx, C::BITS, "into_i64", &|| format!("{v}"), &mut |ctx| check_conv_inner::<C>(ctx, v));
}

fn check_conv_inner<C: Cell>(ctx: &mut WorkerCtx, v: u64) {
    let c = C::from_u64(v);
    let m = C::mask();
    if c.into_u64() != v & m {
        fail(ctx, C::BITS, "from_u64/into_u64", format!("{v}"), format!("{}", v & m), format!("{}", c.into_u64()));
    }
    // sign extension
    let sh = 64 - C::BITS;
    let exp_i = (((v & m) << sh) as i64) >> sh;
    if c.into_i64() != exp_i {
        fail(ctx, C::BITS, "into_i64", format!("{v}"), format!("{exp_i}"), format!("{}", c.into_i64()));
    }
    if C::from_u64(c.into_i64() as u64) != c {
        fail(ctx, C::BITS, "from_u64(into_i64)", format!("{v}"), "round trip".into(), "differs".into());
    }
    if c.into_u8() != v as u8 {
        fail(ctx, C::BITS, "into_u8", format!("{v}"), format!("{}", v as u8), format!("{}", c.into_u8()));
    }
    let exp16 = if exp_i >= i16::MIN as i64 && exp_i <= i16::MAX as i64 { Some(exp_i as i16) } else { None };
    if c.try_into_i16() != exp16 {
        fail(ctx, C::BITS, "try_into_i16", format!("{v}"), format!("{exp16:?}"), format!("{:?}", c.try_into_i16()));
    }
    if c.wrapping_neg().into_u64() != (v & m).wrapping_neg() & m {
        fail(ctx, C::BITS, "wrapping_neg", format!("{v}"), String::new(), String::new());
    }
    if c.trailing_zeros() != if v & m == 0 { C::BITS } else { (v & m).trailing_zeros() } {
        fail(ctx, C::BITS, "trailing_zeros", format!("{v}"), String::new(), format!("{}", c.trailing_zeros()));
    }
    if c.is_odd() != (v & 1 == 1) {
        fail(ctx, C::BITS, "is_odd", format!("{v}"), String::new(), String::new());
    }
}

fn check_consts<C: Cell>(ctx: &mut WorkerCtx) {
    if C::ZERO.into_u64() != 0 || C::ONE.into_u64() != 1 || C::NEG_ONE.into_u64() != C::mask() {
        fail(ctx, C::BITS, "constants", String::new(), "0,1,-1".into(), String::new());
    }
    for v in [0u64, 1, 0x7f, 0x80, 0xff, 0x100] {
        if C::from_u8(v as u8).into_u64() != (v as u8) as u64 {
            fail(ctx, C::BITS, "from_u8", format!("{v}"), String::new(), String::new());
        }
    }
    for v in [0i16, 1, -1, i16::MIN, i16::MAX, 255, 256, -256] {
        let exp = (v as i64 as u64) & C::mask();
        if C::from_i16(v).into_u64() != exp {
            fail(ctx, C::BITS, "from_i16", format!("{v}"), format!("{exp}"), format!("{}", C::from_i16(v).into_u64()));
        }
    }
    // shifts by every amount 0..=BITS+1: zero once the width is reached
    for v in [1u64, 0x80, C::mask(), 0x5555_5555_5555_5555 & C::mask()] {
        for by in 0..=C::BITS + 1 {
            let exp_l = if by >= C::BITS { 0 } else { (v << by) & C::mask() };
            let exp_r = if by >= C::BITS { 0 } else { (v & C::mask()) >> by };
            if C::from_u64(v).wrapping_shl(by).into_u64() != exp_l {
                fail(ctx, C::BITS, "wrapping_shl", format!("{v},{by}"), format!("{exp_l}"), format!("{}", C::from_u64(v).wrapping_shl(by).into_u64()));
            }
            if C::from_u64(v).wrapping_shr(by).into_u64() != exp_r {
                fail(ctx, C::BITS, "wrapping_shr", format!("{v},{by}"), format!("{exp_r}"), format!("{}", C::from_u64(v).wrapping_shr(by).into_u64()));
            }
        }
    }
}

/// pow(base, e) for e = 0..count by running product.
fn check_pow_run<C: Cell>(ctx: &mut WorkerCtx, base: u64, count: u64) {
    guard(ctx, C::BITS, "wrapping_pow", &|| format!("{base},{}", count.saturating_sub(1)), &mut |ctx| check_pow_run_inner::<C>(ctx, base, count));
}

fn check_pow_run_inner<C: Cell>(ctx: &mut WorkerCtx, base: u64, count: u64) {
    let mut p = 1u64;
    for e in 0..count {
        let got = <C as CellType>::wrapping_pow(C::from_u64(base), C::from_u64(e)).into_u64();
        if got != p & C::mask() {
            fail(ctx, C::BITS, "wrapping_pow", format!("{base},{e}"), format!("{}", p & C::mask()), format!("{got}"));
            return;
        }
        p = p.wrapping_mul(base) & C::mask();
    }
}

/// Huge exponents through the exponent-addition law: b^(e1+e2) = b^e1 * b^e2.
fn check_pow_law<C: Cell>(ctx: &mut WorkerCtx, base: u64, e1: u64, e2: u64) {
    guard(ctx, C::BITS, "wrapping_pow-law", &|| format!("{base},{e1}+{e2}"), &mut |ctx| check_pow_law_inner::<C>(ctx, base, e1, e2));
}

fn check_pow_law_inner<C: Cell>(ctx: &mut WorkerCtx, base: u64, e1: u64, e2: u64) {
    let m = C::mask();
    let (e1, e2) = (e1 & m, e2 & m);
    let Some(sum) = e1.checked_add(e2) else { return };
    if sum > m {
        return;
    }
    let f = |e: u64| <C as CellType>::wrapping_pow(C::from_u64(base), C::from_u64(e)).into_u64();
    if f(sum) != f(e1).wrapping_mul(f(e2)) & m {
        fail(ctx, C::BITS, "wrapping_pow-law", format!("{base},{e1}+{e2}"), "b^(e1+e2)=b^e1*b^e2".into(), format!("{}", f(sum)));
    }
}

fn lattice(w: u32) -> Vec<u64> {
    let m = if w == 64 { u64::MAX } else { (1u64 << w) - 1 };
    let mut v = vec![1u64, 3, 5, 7, 9, 11, 13, 15, 17, 21, 25, 27, 31, 33, 63, 65, 127, 129, 255, 257];
    for k in 2..w {
        v.push((1u64 << k).wrapping_add(1));
        v.push((1u64 << k).wrapping_sub(1));
        v.push((1u64 << k).wrapping_add(3));
    }
    v.push(m);
    v.push(m - 2);
    v.push(m / 3 | 1);
    v.push(0x5555_5555_5555_5555 & m);
    v.push(0xAAAA_AAAA_AAAA_AAAB & m);
    v.push(0x0123_4567_89AB_CDEF & m | 1);
    v.push(ref_inv(3) & m);
    v.push(ref_inv(5) & m);
    v.push(ref_inv(7) & m);
    let mut v: Vec<u64> = v.into_iter().map(|x| (x & m) | 1).collect();
    v.sort();
    v.dedup();
    v
}

fn structured<C: Cell>(ctx: &mut WorkerCtx, shard: u64, nshards: u64) {
    let w = C::BITS;
    let lat = lattice(w);
    let mut k = 0u64;
    for tn in 0..=w {
        for td in 0..=w {
            k += 1;
            if k % nshards != shard {
                continue;
            }
            for &on in &lat {
                for &od in &lat {
                    let n = if tn >= w { 0 } else { (on << tn) & C::mask() };
                    let d = if td >= w { 0 } else { (od << td) & C::mask() };
                    check_div::<C>(ctx, n, d);
                    ctx.count("evaluations", 1);
                }
            }
        }
    }
    ctx.distinct(0x5000 + w as u64 * 131 + shard);
    if shard == 0 {
        for &b in &lat {
            for t in 0..4 {
                let base = (b << t) & C::mask();
                check_pow_run::<C>(ctx, base, 301);
                for k in 1..w {
                    let e = 1u64 << k;
                    check_pow_law::<C>(ctx, base, e, e - 1);
                    check_pow_law::<C>(ctx, base, e - 1, 1);
                    check_pow_law::<C>(ctx, base, e, 1);
                }
                check_pow_law::<C>(ctx, base, C::mask() - 1, 1);
                check_pow_law::<C>(ctx, base, C::mask() / 2, C::mask() / 2 + 1);
                ctx.count("evaluations", 301 + 3 * w as u64);
            }
            check_inv::<C>(ctx, b);
            check_inv::<C>(ctx, b.wrapping_add(1) & C::mask());
            check_conv::<C>(ctx, b);
            check_conv::<C>(ctx, b << (w - 8).min(63));
        }
    }
}

pub fn worker(ctx: &mut WorkerCtx) {
    // the complete 16-bit and 32-bit-unary sweeps take about 25 s: both tiers run them
    let thorough = true;
    let (shard, nshards) = if ctx.only.is_some() { (0, 1) } else { (ctx.shard, ctx.nshards) };
    ctx.mark(0, 0, b"C14 arithmetic");
    if shard == 0 {
        check_consts::<u8>(ctx);
        check_consts::<u16>(ctx);
        check_consts::<u32>(ctx);
        check_consts::<u64>(ctx);
    }
    // 8 bit: everything
    // once a few hundred contract violations are recorded the verdict is clear: stop (a helper that
    // misbehaves may also be arbitrarily slow or memory hungry on the remaining 2^32 calls)
    const ENOUGH: u64 = 300;
    for d in 0..256u64 {
        if d % nshards != shard {
            continue;
        }
        for n in 0..256u64 {
            check_div::<u8>(ctx, n, d);
        }
        check_pow_run::<u8>(ctx, d, 256);
        check_inv::<u8>(ctx, d);
        check_conv::<u8>(ctx, d);
        ctx.count("evaluations", 256 + 256 + 2);
        ctx.distinct(0x800 + d);
    }
    // 16 bit: all (n,d) pairs and all (base,exp) pairs in thorough; a structured subset of divisors/bases in quick
    for d in 0..65536u64 {
        if d % nshards != shard {
            continue;
        }
        if ctx.violations >= ENOUGH {
            return;
        }
        let selected = thorough || d < 600 || d % 97 == 0 || (d & d.wrapping_sub(1)) == 0 || ((d + 1) & d) == 0 || d > 65000;
        if selected {
            ctx.beat(d);
            for n in 0..65536u64 {
                check_div::<u16>(ctx, n, d);
            }
            ctx.count("evaluations", 65536);
            ctx.distinct(0x10000 + d);
        }
        let pow_sel = thorough || d < 64 || d % 1021 == 0 || d > 65500;
        if pow_sel {
            check_pow_run::<u16>(ctx, d, if thorough { 65536 } else { 4096 });
            ctx.count("evaluations", if thorough { 65536 } else { 4096 });
        }
        check_inv::<u16>(ctx, d);
        check_conv::<u16>(ctx, d);
        ctx.count("evaluations", 2);
    }
    // 32 bit: all 2^32 values for the unary operations (thorough); strided in quick
    let stride: u64 = if thorough { 1 } else { 4099 };
    let chunk = (1u64 << 32) / nshards;
    let lo = chunk * shard;
    let hi = if shard + 1 == nshards { 1u64 << 32 } else { lo + chunk };
    let mut v = lo;
    let mut n32 = 0u64;
    while v < hi {
        check_inv::<u32>(ctx, v);
        check_conv::<u32>(ctx, v);
        n32 += 2;
        if n32 % (1 << 22) == 0 {
            ctx.beat(v);
            if ctx.violations >= ENOUGH {
                return;
            }
        }
        v += stride;
    }
    ctx.count("evaluations", n32);
    ctx.distinct(0x320000 + shard);
    if ctx.violations >= ENOUGH {
        return;
    }
    // 32/64 bit: structured lattice
    structured::<u32>(ctx, shard, nshards);
    structured::<u64>(ctx, shard, nshards);
    structured::<u16>(ctx, shard, nshards);
    if shard == 0 {
        ctx.sample(|| J::obj().set("op", "wrapping_div").set("width", 16).set("n", 32).set("d", 64).set("expected", format!("{:?}", ref_div(32, 64, 16))));
        ctx.sample(|| J::obj().set("op", "wrapping_div").set("width", 64).set("n", "3<<5").set("d", "5<<3").set("expected", format!("{:?}", ref_div(3 << 5, 5 << 3, 64))));
        ctx.sample(|| J::obj().set("op", "wrapping_inv").set("width", 32).set("v", 3).set("expected", format!("{}", ref_inv(3) & 0xffff_ffff)));
    }
}

pub fn replay(j: &J) -> (bool, String) {
    let w = j.int("width").unwrap_or(8) as u32;
    let op = j.str("op").unwrap_or("");
    let args: Vec<u64> = j.str("args").unwrap_or("").split([',', '+']).filter_map(|x| x.parse().ok()).collect();
    let mut ctx = crate::framework::collector_ctx("C14", Tier::Quick);
    macro_rules! go {
        ($c:ty) => {{
            match op {
                "wrapping_div" if args.len() == 2 => check_div::<$c>(&mut ctx, args[0], args[1]),
                "wrapping_inv" | "wrapping_inv*self" if !args.is_empty() => check_inv::<$c>(&mut ctx, args[0]),
                "wrapping_pow" if args.len() == 2 => check_pow_run::<$c>(&mut ctx, args[0], args[1] + 1),
                "wrapping_pow-law" if args.len() == 3 => check_pow_law::<$c>(&mut ctx, args[0], args[1], args[2]),
                "constants" | "from_u8" | "from_i16" | "wrapping_shl" | "wrapping_shr" => check_consts::<$c>(&mut ctx),
                _ if !args.is_empty() => check_conv::<$c>(&mut ctx, args[0]),
                _ => {}
            }
        }};
    }
    // the sweep visits the widths in one thread, narrowest first: a helper whose answer depends on what was
    // asked before at another width (shared memo table, static scratch) only fails with that history, so the
    // replay asks the same question at every narrower width first
    for ww in [8u32, 16, 32, 64] {
        if ww > w.max(8) {
            break;
        }
        match ww {
            8 => go!(u8),
            16 => go!(u16),
            32 => go!(u32),
            _ => go!(u64),
        }
    }
    let got = ctx.collected.unwrap_or_default();
    (got.iter().any(|g| g.str("op") == Some(op)), format!("{} failures", got.len()))
}

pub fn info(tier: Tier) -> CheckInfo {
    let _ = tier;
    let thorough = true;
    CheckInfo {
        id: "C14",
        level: "model_checking",
        rule: format!(
            "Exhaustive where the space allows: 8 bit — all 65 536 (n,d) pairs of wrapping_div, all (base,exp) pairs of wrapping_pow, \
             all values for wrapping_inv and the conversions; 16 bit — {} and all values for inv/conversions; 32 bit — {} values for \
             wrapping_inv and the zero/sign-extension, truncation and i16 conversions; shifts by every amount 0..=width+1. \
             Structured (bounded, not exhaustive) at 16/32/64 bit: every pair (tz(n),tz(d)) in 0..=width x odd parts from a boundary \
             lattice (small odds, 2^k±1, 2^k+3, all-ones, alternating patterns, inverses of 3,5,7) for wrapping_div; exponents 0..300 \
             and the exponent-addition law at 2^k, 2^k±1, MAX for wrapping_pow. Oracle: the definition via Newton-Hensel inverse and \
             running products. evaluations = helper calls checked; distinct = distinct (width, divisor/base class) groups.",
            if thorough { "all 2^32 (n,d) pairs and all 2^32 (base,exp) pairs" } else { "all n for ~1900 structured divisors (all d<600, every 97th, powers of two and 2^k-1, d>65000) and exponents 0..4095 for ~190 bases" },
            if thorough { "all 2^32" } else { "every 4099th of the 2^32" }
        ),
        assumptions: vec!["the 32/64-bit operand spaces (2^64, 2^128 pairs) are covered by the structured lattice only: exhaustive: false for that part".into()],
        bounds: J::obj().set("u8", "exhaustive").set("u16", if thorough { "exhaustive" } else { "structured subset" }).set("u32_unary", if thorough { "exhaustive" } else { "strided" }).set("u32_u64_binary", "lattice"),
        exhaustive: false,
        hang_secs: 120,
    }
}
