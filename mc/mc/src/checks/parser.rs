//! C12: the parser accepts exactly the balanced programs, reports the documented error
//! positions (character indices), ignores non-command text, and nothing panics.

use hshim::env::Act;
use hshim::exec::{compile, ir_text, parse_only, Backend, CompileErr, Mode, Width};
use hshim::galloc::Arm;

use crate::diff;
use crate::framework::{fnv, isolated, CheckInfo, Iso, Tier, WorkerCtx};
use crate::json::J;
use crate::spaces;

const ALPHA: [char; 5] = ['[', ']', '+', 'x', 'é'];
// comment characters, including ones whose code point modulo 256 is a command byte
// (U+012B ~ '+', U+015B ~ '[', U+015D ~ ']', U+013E ~ '>', U+1F62B ~ '+')
const COMMENTS: [char; 10] = [' ', 'x', 'é', '\n', '\u{1F600}', '\u{12B}', '\u{15B}', '\u{15D}', '\u{13E}', '\u{1F62B}'];
/// second alphabet: brackets and their non-ASCII look-alikes modulo 256
const ALPHA2: [char; 5] = ['[', ']', '\u{15B}', '\u{15D}', '\u{12B}'];

struct Plan {
    max_len: usize,
    create_len: usize,
    rel_len: usize,
    nest_max: usize,
}

fn plan(tier: Tier) -> Plan {
    match tier {
        Tier::Quick => Plan { max_len: 8, create_len: 6, rel_len: 4, nest_max: 400 },
        Tier::Thorough => Plan { max_len: 10, create_len: 8, rel_len: 5, nest_max: 400 },
    }
}

#[derive(Clone, Copy, PartialEq, Eq, Debug)]
pub enum Expect {
    Ok,
    NotOpened(usize),
    NotClosed(usize),
}

/// The 10-line reference bracket matcher (character indices).
pub fn reference(s: &str) -> Expect {
    let mut stack = Vec::new();
    for (i, c) in s.chars().enumerate() {
        if c == '[' {
            stack.push(i);
        } else if c == ']' && stack.pop().is_none() {
            return Expect::NotOpened(i);
        }
    }
    match stack.last() {
        Some(&i) => Expect::NotClosed(i),
        None => Expect::Ok,
    }
}

fn observed(r: &Result<(), CompileErr>) -> Result<Expect, String> {
    match r {
        Ok(()) => Ok(Expect::Ok),
        Err(CompileErr::Parse { not_opened: true, position }) => Ok(Expect::NotOpened(*position)),
        Err(CompileErr::Parse { not_opened: false, position }) => Ok(Expect::NotClosed(*position)),
        Err(CompileErr::Panic(m)) => Err(format!("panic: {m}")),
        Err(CompileErr::OtherErr(m)) => Err(format!("error: {m}")),
    }
}

fn fail(ctx: &mut WorkerCtx, what: &str, s: &str, class: &str, expected: String, got: String) {
    let key = format!("C12|{}|{what}|{s}", diff::profile());
    ctx.fail(
        J::obj()
            .set("property", "C12")
            .set("kind", "parse")
            .set("key", key)
            .set("class", class)
            .set("profile", diff::profile())
            .set("what", what)
            .set("source", s)
            .set("expected", expected)
            .set("observed", got),
    );
}

fn nth_string(mut i: u64, len: usize) -> String {
    let mut v = Vec::with_capacity(len);
    for _ in 0..len {
        v.push(ALPHA[(i % 5) as usize]);
        i /= 5;
    }
    v.reverse();
    v.into_iter().collect()
}

/// Judge one source string: parse (all widths), create (parsing executors), in-place totality.
pub fn judge_string(ctx: &mut WorkerCtx, p: &Plan, s: &str) {
    let exp = reference(s);
    let nchars = s.chars().count();
    ctx.count("evaluations", 1);
    if exp != Expect::Ok || s.contains('[') {
        ctx.distinct(fnv(s.as_bytes()));
    }
    let widths: &[Width] = if nchars <= p.create_len { &Width::ALL } else { &[Width::W8] };
    for &w in widths {
        let r = parse_only(w, s);
        ctx.count("parse_calls", 1);
        match observed(&r) {
            Ok(o) if o == exp => {}
            Ok(o) => fail(ctx, &format!("parse{}", w.bits()), s, "wrong-result", format!("{exp:?}"), format!("{o:?}")),
            Err(m) => fail(ctx, &format!("parse{}", w.bits()), s, "panic", format!("{exp:?}"), m),
        }
    }
    if nchars <= p.create_len {
        for b in [Backend::IrInt, Backend::BcInt, Backend::BaseJit] {
            for level in [0u32, 2] {
                ctx.count("create_calls", 1);
                let r = compile(b, Width::W8, level, s).map(|_| ());
                match observed(&r) {
                    Ok(o) if o == exp => {}
                    Ok(o) => fail(ctx, &format!("create-{}-O{level}", b.name()), s, "wrong-result", format!("{exp:?}"), format!("{o:?}")),
                    Err(m) => fail(ctx, &format!("create-{}-O{level}", b.name()), s, "panic", format!("{exp:?}"), m),
                }
            }
        }
    }
    // the in-place interpreter must never panic, whatever the text
    if nchars <= p.create_len + 1 {
        if let Ok(c) = compile(Backend::Inplace, Width::W8, 0, s) {
            let (r, _) = diff::run_logged(&c, Mode::Limited(64), &[], 64, Arm::default());
            ctx.count("inplace_runs", 1);
            if let Some(m) = r.panicked {
                fail(ctx, "inplace-run", s, "panic", "no panic".into(), m);
            } else if let Some((not_opened, pos)) = r.err {
                // the only documented error of the in-place interpreter
                let first_unmatched = matches!(exp, Expect::NotOpened(_));
                if !not_opened || !first_unmatched {
                    fail(ctx, "inplace-run", s, "wrong-error", format!("{exp:?}"), format!("Err(not_opened={not_opened}, {pos})"));
                }
            }
        }
    }
}

fn io_logs(code: &str, script: &[u8]) -> Vec<(String, Option<Vec<Act>>)> {
    let mut v = Vec::new();
    for b in Backend::ALL {
        for level in if b == Backend::Inplace { vec![0u32] } else { vec![0u32, 2] } {
            let log = match compile(b, Width::W8, level, code) {
                Ok(c) => {
                    let (r, log) = diff::run_logged(&c, Mode::Limited(400), script, 256, Arm::default());
                    if r.panicked.is_some() || r.err.is_some() {
                        None
                    } else {
                        Some(log)
                    }
                }
                Err(_) => None,
            };
            v.push((format!("{}-O{level}", b.name()), log));
        }
    }
    v
}

/// Relational part: inserting comment characters changes nothing.
pub fn judge_relational(ctx: &mut WorkerCtx, base: &str) {
    let chars: Vec<char> = base.chars().collect();
    let base_exp = reference(base);
    let base_ir = ir_text(Width::W8, 2, base);
    let base_logs = if base_exp == Expect::Ok { io_logs(base, &[1, 2]) } else { Vec::new() };
    // all insertions of one or two comment characters
    let mut variants: Vec<(String, Vec<usize>)> = Vec::new();
    for pos in 0..=chars.len() {
        for &c in &COMMENTS {
            let mut v = chars.clone();
            v.insert(pos, c);
            variants.push((v.iter().collect(), vec![pos]));
            for pos2 in pos..=chars.len() {
                for &c2 in &[COMMENTS[1], COMMENTS[2], COMMENTS[6]] {
                    let mut v2 = v.clone();
                    v2.insert(pos2 + 1, c2);
                    variants.push((v2.iter().collect(), vec![pos, pos2 + 1]));
                }
            }
        }
    }
    for (s, inserted) in variants {
        ctx.count("evaluations", 1);
        ctx.count("relational_variants", 1);
        let shift = |p: usize| {
            // position p of the base string moves right by the number of characters inserted at or before it
            let mut q = p;
            for &i in &inserted {
                if i <= q {
                    q += 1;
                }
            }
            q
        };
        let want = match base_exp {
            Expect::Ok => Expect::Ok,
            Expect::NotOpened(p) => Expect::NotOpened(shift(p)),
            Expect::NotClosed(p) => Expect::NotClosed(shift(p)),
        };
        match observed(&parse_only(Width::W8, &s)) {
            Ok(o) if o == want => {}
            Ok(o) => fail(ctx, "comment-insertion-parse", &s, "wrong-result", format!("{want:?}"), format!("{o:?}")),
            Err(m) => fail(ctx, "comment-insertion-parse", &s, "panic", format!("{want:?}"), m),
        }
        if base_exp == Expect::Ok {
            let ir = ir_text(Width::W8, 2, &s);
            if ir != base_ir {
                fail(ctx, "comment-insertion-ir", &s, "ir-differs", format!("{base_ir:?}"), format!("{ir:?}"));
            }
            let logs = io_logs(&s, &[1, 2]);
            for ((n, a), (_, b)) in logs.iter().zip(base_logs.iter()) {
                ctx.count("executions", 1);
                if a != b {
                    fail(
                        ctx,
                        &format!("comment-insertion-run-{n}"),
                        &s,
                        "behaviour-differs",
                        format!("{:?}", b.as_ref().map(|l| diff::trace_str(l))),
                        format!("{:?}", a.as_ref().map(|l| diff::trace_str(l))),
                    );
                }
            }
        }
    }
}

fn judge_nesting(ctx: &mut WorkerCtx, n: usize) {
    for (name, code) in [("open-close", spaces::nest_open_close(n)), ("counted", spaces::nest_counted(n))] {
        let text = String::from_utf8(code).unwrap();
        ctx.count("evaluations", 1);
        ctx.count("nesting_cases", 1);
        ctx.distinct(fnv(text.as_bytes()));
        let t2 = text.clone();
        let r = isolated(20_000, move || {
            let mut out = Vec::new();
            for b in Backend::ALL {
                for level in [0u32, 2] {
                    match compile(b, Width::W8, level, &t2) {
                        Ok(c) => {
                            let (r, _) = diff::run_logged(&c, Mode::Limited(10_000), &[], 64, Arm::default());
                            if let Some(m) = r.panicked {
                                out.extend_from_slice(format!("{}-O{level} run panicked: {m}\n", b.name()).as_bytes());
                            }
                            if let Some(e) = r.err {
                                // the text is balanced: no executor may report a bracket error while running it
                                out.extend_from_slice(format!("{}-O{level} run returned Err(loop_not_opened={}, position {})\n", b.name(), e.0, e.1).as_bytes());
                            }
                        }
                        Err(e) => out.extend_from_slice(format!("{}-O{level} create failed: {e:?}\n", b.name()).as_bytes()),
                    }
                }
            }
            out
        });
        let what = format!("nesting-{name}-{n}");
        match r {
            Iso::Done(b) if b.is_empty() => {}
            Iso::Done(b) => fail(ctx, &what, &format!("{name}({n})"), "panic", "all executors build and run".into(), String::from_utf8_lossy(&b).to_string()),
            Iso::Signal(s) => fail(ctx, &what, &format!("{name}({n})"), "crash", "no crash".into(), format!("signal {s}")),
            Iso::Timeout => fail(ctx, &what, &format!("{name}({n})"), "hang", "returns".into(), "no result within 20 s".into()),
            Iso::Exit(e) => fail(ctx, &what, &format!("{name}({n})"), "crash", "no crash".into(), format!("exit {e}")),
        }
    }
}

pub fn worker(ctx: &mut WorkerCtx) {
    let p = plan(ctx.tier);
    let mut idx = 0u64;
    let mut owned = 0u64;
    // part 1: all strings over the alphabet
    for len in 0..=p.max_len {
        let total = 5u64.pow(len as u32);
        for i in 0..total {
            if ctx.owns(idx) {
                let s = nth_string(i, len);
                owned += 1;
                if owned % 64 == 1 {
                    ctx.mark(idx, 1, s.as_bytes());
                }
                judge_string(ctx, &p, &s);
                if len == 6 && i % 3001 == 0 {
                    ctx.sample(|| J::obj().set("source", s.as_str()).set("reference", format!("{:?}", reference(&s))));
                }
            }
            idx += 1;
        }
    }
    // part 1b: the second alphabet (non-ASCII characters that truncate to command bytes), up to length 6
    for len in 1..=6usize {
        let total = 5u64.pow(len as u32);
        for i in 0..total {
            if ctx.owns(idx) {
                let mut v = Vec::with_capacity(len);
                let mut k = i;
                for _ in 0..len {
                    v.push(ALPHA2[(k % 5) as usize]);
                    k /= 5;
                }
                let s: String = v.into_iter().collect();
                owned += 1;
                if owned % 64 == 1 {
                    ctx.mark(idx, 1, s.as_bytes());
                }
                judge_string(ctx, &p, &s);
            }
            idx += 1;
        }
    }
    // part 2: comment insertion into valid programs of A(rel_len) and into unbalanced strings
    let mut bases: Vec<(u64, String)> = Vec::new();
    let b0 = idx;
    idx += spaces::space_a(p.rel_len, &mut |i, c| {
        if ctx.owns(b0 + i) {
            bases.push((b0 + i, String::from_utf8(c.to_vec()).unwrap()));
        }
    });
    for len in 1..=p.rel_len {
        for i in 0..3u64.pow(len as u32) {
            let mut v = Vec::new();
            let mut k = i;
            for _ in 0..len {
                v.push(['[', ']', '+'][(k % 3) as usize]);
                k /= 3;
            }
            let s: String = v.into_iter().collect();
            if reference(&s) != Expect::Ok {
                if ctx.owns(idx) {
                    bases.push((idx, s));
                }
                idx += 1;
            }
        }
    }
    for (i, b) in bases {
        ctx.mark(i, 2, b.as_bytes());
        judge_relational(ctx, &b);
    }
    // part 3: nesting depth
    let mut n = 1;
    while n <= p.nest_max {
        if ctx.owns(idx) {
            ctx.mark(idx, 3, format!("nest {n}").as_bytes());
            judge_nesting(ctx, n);
        }
        idx += 1;
        n = if n < 16 { n + 1 } else { n + n / 4 };
    }
    for n in [127usize, 128, 129, 255, 256, 257, 258, p.nest_max] {
        if ctx.owns(idx) {
            ctx.mark(idx, 3, format!("nest {n}").as_bytes());
            judge_nesting(ctx, n);
        }
        idx += 1;
    }
}

pub fn replay(j: &J, tier: Tier) -> (bool, String) {
    let p = plan(tier);
    let s = j.str("source").unwrap_or("").to_string();
    let what = j.str("what").unwrap_or("").to_string();
    let mut ctx = crate::framework::collector_ctx("C12", tier);
    if what.starts_with("nesting-") {
        let n: usize = what.rsplit('-').next().and_then(|x| x.parse().ok()).unwrap_or(1);
        judge_nesting(&mut ctx, n);
    } else if what.starts_with("comment-insertion") {
        // re-derive the base by dropping the comment characters
        let base: String = s.chars().filter(|c| "[]+-<>.,".contains(*c)).collect();
        judge_relational(&mut ctx, &base);
    } else {
        judge_string(&mut ctx, &p, &s);
    }
    let key = j.str("key").unwrap_or("");
    let class = j.str("class").unwrap_or("");
    for g in ctx.collected.unwrap_or_default() {
        if g.str("key") == Some(key) {
            return (g.str("class") == Some(class), format!("observed {}", g.str("observed").unwrap_or("")));
        }
    }
    (false, "passes now".into())
}

pub fn info(tier: Tier) -> CheckInfo {
    let p = plan(tier);
    CheckInfo {
        id: "C12",
        level: "model_checking",
        rule: format!(
            "Exhaustive: every string over the alphabet {{'[',']','+','x','é'}} ('é' is two bytes, so character index != byte index) up \
             to length {} (and over {{'[',']',U+015B,U+015D,U+012B}} — look-alikes of brackets modulo 256 — up to length 6) through ir::Program::parse (all widths up to length {}), Executor::create of the IR interpreter, bytecode \
             interpreter and JIT at levels 0 and 2 (up to length {}) and a budgeted run of the in-place interpreter; oracle = a stack \
             matcher (Ok iff balanced, else LoopNotOpened at the character index of the first unmatched ']', else LoopNotClosed at the \
             index of the innermost unclosed '['). Relational: every insertion of one or two comment characters (space, x, é, newline, \
             U+1F600 and five non-ASCII characters whose code point modulo 256 is a command byte) at every position into every valid program of A(len<={}) and every unbalanced string over '[',']','+' of that \
             length: same acceptance / same error kind with the position shifted by the insertions before it, identical printed IR and \
             identical I/O log on all four backends. Totality: nesting families [^n ]^n and (+[)^n (-])^n up to n={} in isolated \
             processes. A case is non-trivial if it contains a bracket; distinct = distinct such strings.",
            p.max_len, p.create_len, p.create_len, p.rel_len, p.nest_max
        ),
        assumptions: vec![
            "the alphabet {[,],+,x,é} represents all strings: other commands do not interact with bracket matching".into(),
            "'moderate nesting depth' is taken as <= 400".into(),
        ],
        bounds: J::obj().set("max_len", p.max_len).set("create_len", p.create_len).set("relational_len", p.rel_len).set("nest_max", p.nest_max),
        exhaustive: true,
        hang_secs: 60,
    }
}
