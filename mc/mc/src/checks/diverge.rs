//! C05: divergence and termination are preserved by every backend.
//!
//! Divergence of the reference is *proved* (exact machine-state repetition with no input left),
//! never guessed. Three observations on the implementation (DESIGN §3 C05):
//!  1. `execute_limited` over a budget ladder: never finishes, log is a prefix of pre·cyc^ω and
//!     eventually contains all of pre (and more, if the cycle performs I/O);
//!  2. plain `execute` with the I/O object failing at action N returns with exactly the
//!     first N canonical actions;
//!  3. plain `execute` of silent cycles is still running after a wall-clock window.
//! Canonically halting programs must terminate (with the canonical trace) under `execute`.

use hshim::env::OutFail;
use hshim::exec::{compile, Backend, Mode, Width};
use hshim::galloc::Arm;

use crate::diff::{self, failure_json, judge_halting, Failure, IsoOutcome};
use crate::framework::{fnv, CheckInfo, Tier, WorkerCtx};
use crate::json::J;
use crate::refbf::{self, Canon, Verdict};
use crate::spaces;

struct Plan {
    a_len: usize,
    s_k: usize,
    depth: usize,
    step_cap: u64,
    ladder_top: usize,
    silent_window_ms: u64,
    silent_budget: u64,
    widths: Vec<Width>,
}

fn plan(tier: Tier) -> Plan {
    match tier {
        Tier::Quick => Plan {
            a_len: 6,
            s_k: 1,
            depth: 1,
            step_cap: 5_000,
            ladder_top: 20_000,
            silent_window_ms: 150,
            silent_budget: 40,
            widths: vec![Width::W8, Width::W64],
        },
        Tier::Thorough => Plan {
            a_len: 7,
            s_k: 2,
            depth: 2,
            step_cap: 20_000,
            ladder_top: 200_000,
            silent_window_ms: 150,
            silent_budget: 2_000,
            widths: Width::ALL.to_vec(),
        },
    }
}

fn levels(b: Backend) -> Vec<u32> {
    if b == Backend::Inplace {
        vec![0]
    } else {
        vec![0, 1, 2, 3]
    }
}

fn stream_at(c: &Canon, i: usize) -> Option<hshim::env::Act> {
    if i < c.trace.len() {
        Some(c.trace[i])
    } else if c.cyc == 0 {
        None
    } else {
        Some(refbf::cyclic_action(c, i))
    }
}

fn first_stream_mismatch(log: &[hshim::env::Act], c: &Canon) -> Option<usize> {
    for (i, a) in log.iter().enumerate() {
        if stream_at(c, i) != Some(*a) {
            return Some(i);
        }
    }
    None
}

const SPIN_EPILOGUE: &[u8] = b"[]>[]>[]>[]>[]";
/// cell 3 := 1; scan left to the first zero cell; step right; scan right to cell 4; spin on c, b, a
const SCAN_SPIN_EPILOGUE: &[u8] = b">>>[-]+[<]>[>]<<[]<[]<[]";

pub fn worker(ctx: &mut WorkerCtx) {
    let p = plan(ctx.tier);
    let mut work: Vec<(u64, Vec<u8>)> = Vec::new();
    let mut base = 0u64;
    for c in spaces::space_r() {
        if ctx.owns(base) {
            work.push((base, c));
        }
        base += 1;
    }
    let b0 = base;
    base += spaces::space_a(p.a_len, &mut |i, c| {
        if ctx.owns(b0 + i) {
            work.push((b0 + i, c.to_vec()));
        }
    });
    let b1 = base;
    base += spaces::space_s(p.s_k, 0, &mut |i, c| {
        if ctx.owns(b1 + i) {
            work.push((b1 + i, c.to_vec()));
        }
    });
    // the statement programs with a *divergence epilogue*: instead of printing the variables the program
    // spins on every non-zero one, so a miscompilation that leaves a wrong (zero / non-zero) value in a
    // variable turns a terminating program into a divergent one or the reverse
    let epi = spaces::EPILOGUE.as_bytes();
    let mut spin: Vec<(u64, Vec<u8>)> = Vec::new();
    let thorough = ctx.tier == Tier::Thorough;
    let mut with_spin = |i: u64, c: &[u8], spin: &mut Vec<(u64, Vec<u8>)>| {
        if ctx.owns(i) && c.ends_with(epi) {
            let mut v = c[..c.len() - epi.len()].to_vec();
            v.extend_from_slice(SPIN_EPILOGUE);
            spin.push((i, v));
            // the same through a dynamic pointer: after two scans the optimiser no longer knows where the
            // pointer is, so the spins test what is really in memory, not what constant propagation believes
            let mut v = c[..c.len() - epi.len()].to_vec();
            v.extend_from_slice(SCAN_SPIN_EPILOGUE);
            spin.push((i, v));
        }
    };
    let e0 = base;
    base += spaces::space_s(1, 0, &mut |i, c| with_spin(e0 + i, c, &mut spin));
    let e1 = base;
    base += spaces::space_sp(&mut |i, c| {
        // space_sp enumerates (body, post, prefix, shape) with the shape fastest: the input-only prefix and,
        // in the quick tier, the `while` and `if` shapes
        let (shape, prefix) = (i % 4, (i / 4) % 3);
        if prefix == 0 && (thorough || shape >= 2) {
            with_spin(e1 + i, c, &mut spin)
        }
    });
    for (_, c) in spaces::space_k() {
        if ctx.owns(base) {
            work.push((base, c));
        }
        base += 1;
    }
    // loops around scans: knowledge about the enclosing loop must be dropped after a pointer-moving sub-loop
    let n0 = base;
    base += spaces::space_n(ctx.tier == Tier::Thorough, 5, &mut |i, c| {
        if ctx.owns(n0 + i) {
            work.push((n0 + i, c.to_vec()));
        }
    });
    // wide values as loop conditions: divergence must not depend on the low bits only
    for c in wide_divergent() {
        if ctx.owns(base) {
            work.push((base, c));
        }
        base += 1;
    }
    let mut silent_done = 0u64;
    for (idx, code) in work {
        ctx.mark(idx, 0, &code);
        judge_program(ctx, &p, &code, &mut silent_done, false);
    }
    for (idx, code) in spin {
        ctx.mark(idx, 0, &code);
        judge_program(ctx, &p, &code, &mut silent_done, true);
    }
}

pub fn wide_divergent() -> Vec<Vec<u8>> {
    let mut v = Vec::new();
    for k in [2usize, 4, 6, 8, 9, 12, 15, 16] {
        let mut shl = Vec::new();
        for r in 0..k {
            if r % 2 == 0 {
                shl.extend_from_slice(b"[>++++++++++++++++<-]>");
            } else {
                shl.extend_from_slice(b"[<++++++++++++++++>-]<");
            }
        }
        for tail in [&b"[]"[..], b"+.-[.]", b"[>>+.-<<]", b"[[-]>>+<<]>>-[]"] {
            let mut p = b",".to_vec();
            p.extend_from_slice(&shl);
            p.extend_from_slice(tail);
            v.push(p);
        }
    }
    v
}

fn is_wide(code: &[u8]) -> bool {
    code.starts_with(b",[>++++++++++++++++<-]>")
}

pub fn replay_program(ctx: &mut WorkerCtx, code: &[u8]) {
    let p = plan(ctx.tier);
    let mut silent_done = 0u64;
    let spin = code.ends_with(SPIN_EPILOGUE) || code.ends_with(SCAN_SPIN_EPILOGUE);
    judge_program(ctx, &p, code, &mut silent_done, spin);
}

/// `spin`: a statement program with the divergence epilogue: the eight zero / non-zero input patterns of
/// the three variables, optimising levels only, and in the quick tier 8-bit cells only.
fn judge_program(ctx: &mut WorkerCtx, p: &Plan, code: &[u8], silent_done: &mut u64, spin: bool) {
    let code = code.to_vec();
    {
        ctx.count("programs", 1);
        let text = std::str::from_utf8(&code).unwrap();
        let spin_widths = [Width::W8];
        let widths: &[Width] = if spin && p.depth < 2 { &spin_widths } else { &p.widths };
        for &w in widths {
            let wide = is_wide(&code);
            let runs = if wide {
                // the shift loops are closed in one step by the accelerated reference (validated in C04)
                [1u8, 2, 128, 255, 0].iter().map(|&a| (vec![a], refbf::run_opt(&code, w, &[a], p.step_cap, true, true))).collect()
            } else if spin {
                // every zero / non-zero pattern of the three variables
                (0..8u8)
                    .map(|m| {
                        let s: Vec<u8> = (0..3).map(|i| if m >> i & 1 == 1 { 5 } else { 0 }).collect();
                        let c = refbf::run(&code, w, &s, p.step_cap, true);
                        (s, c)
                    })
                    .collect()
            } else {
                diff::explore_env(&code, w, p.depth, p.step_cap, true)
            };
            ctx.count("env_nodes", runs.len() as u64);
            let n_cycle = runs.iter().filter(|(_, c)| c.verdict == Verdict::Cycle).count();
            let n_unknown = runs.iter().filter(|(_, c)| c.verdict == Verdict::Unknown).count();
            ctx.count("canonical_cycle", n_cycle as u64);
            ctx.count("canonical_unknown_skipped", n_unknown as u64);
            if n_cycle == 0 {
                // halting programs are judged by C01..C04 on the larger spaces; here only the
                // divergent ones and (below) their halting siblings in the same choice tree
                continue;
            }
            for backend in Backend::ALL {
                for level in levels(backend) {
                    if (wide || spin) && (level == 0 || backend == Backend::Inplace) {
                        continue;
                    }
                    ctx.beat((backend as u64) << 40 | (w.bits() as u64) << 32 | level as u64);
                    let Ok(comp) = compile(backend, w, level, text) else {
                        ctx.count("create_failed", 1);
                        continue;
                    };
                    for (script, canon) in &runs {
                        match canon.verdict {
                            Verdict::Halt => {
                                ctx.count("executions", 1);
                                ctx.count("halting_siblings", 1);
                                if let Err(f) = judge_halting(&comp, script, canon, false) {
                                    ctx.fail(failure_json("C05", backend, w, level, &code, script, &f));
                                }
                            }
                            Verdict::Cycle => {
                                ctx.distinct(fnv(&code) ^ fnv(script).rotate_left(11) ^ ((w.bits() as u64) << 52));
                                judge_cycle(ctx, p, &comp, backend, w, level, &code, script, canon, silent_done);
                            }
                            _ => {}
                        }
                    }
                }
            }
            ctx.sample(|| {
                let (s, c) = runs.iter().find(|(_, c)| c.verdict == Verdict::Cycle).unwrap();
                J::obj()
                    .set("program", text)
                    .set("width", w.bits())
                    .set("script", diff::script_hex(s))
                    .set("pre", diff::trace_str(&c.trace[..c.pre.min(16)]))
                    .set("cycle", diff::trace_str(&c.trace[c.pre..(c.pre + c.cyc).min(c.pre + 16)]))
                    .set("steps_to_cycle", c.steps_to_cycle)
            });
        }
    }
}

#[allow(clippy::too_many_arguments)]
fn judge_cycle(
    ctx: &mut WorkerCtx,
    p: &Plan,
    comp: &hshim::exec::Compiled,
    backend: Backend,
    w: Width,
    level: u32,
    code: &[u8],
    script: &[u8],
    canon: &Canon,
    silent_done: &mut u64,
) {
    let pre_total = canon.trace.len() - canon.cyc; // = canon.pre
    let mk = |class: &str, mode: String, log: &[hshim::env::Act], detail: String, first: usize| Failure {
        class: class.into(),
        mode,
        observed: diff::trace_str(&log[..log.len().min(64)]),
        expected: format!(
            "{} ( {} )^w",
            diff::trace_str(&canon.trace[..pre_total.min(48)]),
            diff::trace_str(&canon.trace[pre_total..canon.trace.len().min(pre_total + 16)])
        ),
        first_diff: first,
        detail,
    };
    // observation 1: budget ladder
    let b0 = diff::screen_budget(canon).min(p.ladder_top);
    let mut rungs = vec![0usize, 1, 2, 5, 13, 34, 89];
    let mut x = b0;
    while x < p.ladder_top {
        rungs.push(x);
        x *= 16;
    }
    rungs.push(p.ladder_top);
    rungs.sort();
    rungs.dedup();
    let mut last_len = 0usize;
    for &budget in &rungs {
        ctx.count("executions", 1);
        let cap = canon.trace.len() + (budget.min(1 << 21) + 2) * code.len() + 64;
        let (r, log) = diff::run_logged(comp, Mode::Limited(budget), script, cap, Arm::default());
        ctx.count("actions_compared", log.len() as u64);
        if let Some(m) = r.panicked {
            ctx.fail(failure_json("C05", backend, w, level, code, script, &mk("panic", format!("limited:{budget}"), &log, m, 0)));
            return;
        }
        if r.finished == Some(true) {
            ctx.fail(failure_json("C05", backend, w, level, code, script,
                &mk("returned", format!("limited:{budget}"), &log, "a canonically divergent program finished".into(), 0)));
            return;
        }
        if let Some(i) = first_stream_mismatch(&log, canon) {
            let class = if stream_at(canon, i).is_none() { "extra" } else { "wrong" };
            ctx.fail(failure_json("C05", backend, w, level, code, script,
                &mk(class, format!("limited:{budget}"), &log, "output before diverging differs from the canonical stream".into(), i)));
            return;
        }
        last_len = log.len();
    }
    // at the top rung everything before the cycle must have happened
    if last_len < pre_total || (canon.cyc > 0 && last_len < pre_total + canon.cyc) {
        ctx.fail(failure_json("C05", backend, w, level, code, script,
            &mk("missing", format!("limited:{}", rungs[rungs.len() - 1]), &[],
                format!("only {last_len} of the {} actions before/in the first cycle were performed at the top budget", pre_total + canon.cyc), last_len)));
        return;
    }
    // observation 2: plain execute, I/O failing at action N
    if canon.cyc > 0 {
        // fault positions: the first *output* at or after the start, the cycle entry and the
        // second round of the cycle (failing inputs belong to C08)
        let ns = [0usize, pre_total, pre_total + 2 * canon.cyc - 1];
        let mut done = std::collections::BTreeSet::new();
        for n in ns {
            let Some(n) = (n..n + canon.cyc + pre_total + 1).find(|&i| matches!(stream_at(canon, i), Some(hshim::env::Act::Out(_)))) else {
                continue;
            };
            if !done.insert(n) {
                continue;
            }
            ctx.count("executions", 1);
            let cap = n + 8;
            let expected: Vec<_> = (0..=n).map(|i| stream_at(canon, i).unwrap()).collect();
            // screen through the limited twin first; an unexpected result goes to the isolated run
            let envr = hshim::env::Env::new(script, cap);
            envr.borrow_mut().fail_at = Some(n);
            envr.borrow_mut().out_fail = OutFail::Err;
            let budget = diff::screen_budget(canon).saturating_mul(3 + n / canon.cyc.max(1)).min(1 << 24);
            let r = comp.run(Mode::Limited(budget), &envr, true, true, Arm::default());
            let log = std::mem::take(&mut envr.borrow_mut().log);
            let ok_screen = r.panicked.is_none() && log == expected;
            let outcome = if ok_screen {
                let envr = hshim::env::Env::new(script, cap);
                envr.borrow_mut().fail_at = Some(n);
                let r = comp.run(Mode::Execute, &envr, true, true, Arm::default());
                let log = std::mem::take(&mut envr.borrow_mut().log);
                IsoOutcome::Ran(diff::IsoRun { finished: None, panicked: r.panicked, canary_bad: 0, log })
            } else if !diff::may_confirm_hang() {
                // enough wall-clock confirmations in this worker: the limited twin's log is the evidence
                ctx.fail(failure_json("C05", backend, w, level, code, script,
                    &mk(diff::classify(&log, &expected).map(|x| x.0).unwrap_or("wrong"), format!("limited:fail@{n}"), &log,
                        format!("with output action {n} failing, the limited twin did not produce exactly the first {} canonical actions (wall-clock run skipped)", n + 1), 0)));
                return;
            } else {
                diff::run_isolated(comp, Mode::Execute, script, cap, Some((n, OutFail::Err)), true, Arm::default(), 1500)
            };
            match outcome {
                IsoOutcome::Ran(x) => {
                    if let Some(m) = x.panicked {
                        ctx.fail(failure_json("C05", backend, w, level, code, script, &mk("panic", format!("execute:fail@{n}"), &x.log, m, 0)));
                        return;
                    }
                    if let Some((cl, i)) = diff::classify(&x.log, &expected) {
                        ctx.fail(failure_json("C05", backend, w, level, code, script,
                            &mk(cl, format!("execute:fail@{n}"), &x.log,
                                format!("with action {n} failing, execute must return after exactly the first {} canonical actions", n + 1), i)));
                        return;
                    }
                }
                IsoOutcome::Hang => {
                    ctx.fail(failure_json("C05", backend, w, level, code, script,
                        &mk("hang", format!("execute:fail@{n}"), &[],
                            format!("never reached canonical action {n} (infinite loop no longer performs its I/O)"), 0)));
                    return;
                }
                IsoOutcome::Crash(s) => {
                    ctx.fail(failure_json("C05", backend, w, level, code, script, &mk("crash", format!("execute:fail@{n}"), &[], s, 0)));
                    return;
                }
            }
        }
    } else if *silent_done < p.silent_budget {
        // observation 3: silent divergence must still be running after the window
        *silent_done += 1;
        ctx.count("executions", 1);
        ctx.count("silent_window_runs", 1);
        match diff::run_isolated(comp, Mode::Execute, script, canon.trace.len() + 8, None, true, Arm::default(), p.silent_window_ms) {
            IsoOutcome::Hang => {}
            IsoOutcome::Ran(x) => {
                ctx.fail(failure_json("C05", backend, w, level, code, script,
                    &mk("returned", "execute".into(), &x.log, format!("a silently divergent program returned within {} ms", p.silent_window_ms), 0)));
            }
            IsoOutcome::Crash(s) => {
                ctx.fail(failure_json("C05", backend, w, level, code, script, &mk("crash", "execute".into(), &[], s, 0)));
            }
        }
    }
}

pub fn info(tier: Tier) -> CheckInfo {
    let p = plan(tier);
    CheckInfo {
        id: "C05",
        level: "model_checking",
        rule: format!(
            "Bounded exhaustive: every program of A(len<={}), S(1,{}), regression corpus and K at each width over the input choice tree \
             (depth {}) whose canonical run provably repeats an exact machine state (Brent cycle detection over pc, pointer, full tape \
             and input position, within {} steps), on all four backends at levels 0..3. Observations: (1) execute_limited at budgets \
             0,1,2,5,13,34,89,B0,16*B0,..,{}: never finished, log is a prefix of pre·cyc^w, and at the top rung pre and one full cycle \
             were performed; (2) execute with the I/O object failing at action 0, |pre| and |pre|+2|cyc|-1 returns with exactly the \
             canonical prefix (limited twin first, isolated child with watchdog otherwise); (3) execute of silent cycles is still running \
             after {} ms (first {} per worker). Halting siblings in the same choice tree must halt with the canonical trace. \
             states = choice-tree nodes; transitions = I/O actions compared; distinct = distinct provably cyclic (program,width,script).",
            p.a_len, p.s_k, p.depth, p.step_cap, p.ladder_top, p.silent_window_ms, p.silent_budget
        ),
        assumptions: vec![
            "'never returns' is decided inside a finite window: budgets up to the ladder top and a wall-clock window for silent cycles; moving divergence (no exact state repetition) stays Unknown and is skipped".into(),
            "the wall-clock observation can only miss a defect, never raise a false alarm".into(),
        ],
        bounds: J::obj()
            .set("A_max_len", p.a_len)
            .set("S_max_statements", p.s_k)
            .set("input_depth", p.depth)
            .set("step_cap", p.step_cap)
            .set("ladder_top", p.ladder_top)
            .set("silent_window_ms", p.silent_window_ms),
        exhaustive: true,
        hang_secs: 30,
    }
}
