//! C06, C10, C17: memory safety observed through the instrumented allocator (DESIGN §2.7).
//!
//! C06: checked mode never touches memory outside the tape, contents survive reallocations.
//! C10: unchecked mode on an exact-fit pre-grown tape (guard pages on both edges).
//! C17: a failing allocation ends in an abort or panic, never in a wild access or a normal return.

use hshim::exec::{compile, Backend, Compiled, Mode, Width};
use hshim::galloc::{Arm, PLACE_LEFT, PLACE_RIGHT};

use crate::diff::{self, failure_json, Failure};
use crate::framework::{fnv, isolated, CheckInfo, Iso, Tier, WorkerCtx};
use crate::json::J;
use crate::refbf::{self, Canon, Verdict};
use crate::spaces;

fn levels(b: Backend) -> Vec<u32> {
    if b == Backend::Inplace {
        vec![0]
    } else {
        vec![0, 1, 2, 3]
    }
}

struct Plan {
    a_len: usize,
    s_k: usize,
    m_full: bool,
    depth: usize,
    step_cap: u64,
    m_step_cap: u64,
    widths: Vec<Width>,
}

fn plan(tier: Tier) -> Plan {
    match tier {
        Tier::Quick => Plan { a_len: 5, s_k: 1, m_full: false, depth: 1, step_cap: 5_000, m_step_cap: 400_000, widths: vec![Width::W8, Width::W64] },
        Tier::Thorough => Plan { a_len: 6, s_k: 2, m_full: true, depth: 2, step_cap: 20_000, m_step_cap: 30_000_000, widths: Width::ALL.to_vec() },
    }
}

fn gather(ctx: &WorkerCtx, p: &Plan, with_w: bool) -> Vec<(u64, &'static str, Vec<u8>)> {
    let mut work: Vec<(u64, &'static str, Vec<u8>)> = Vec::new();
    let mut base = 0u64;
    for c in spaces::space_m(p.m_full) {
        if ctx.owns(base) {
            work.push((base, "M", c));
        }
        base += 1;
    }
    for c in spaces::space_r() {
        if ctx.owns(base) {
            work.push((base, "R", c));
        }
        base += 1;
    }
    let b0 = base;
    base += spaces::space_a(p.a_len, &mut |i, c| {
        if ctx.owns(b0 + i) {
            work.push((b0 + i, "A", c.to_vec()));
        }
    });
    let b1 = base;
    base += spaces::space_s(p.s_k, 0, &mut |i, c| {
        if ctx.owns(b1 + i) {
            work.push((b1 + i, "S", c.to_vec()));
        }
    });
    // straight-line statement pairs over three inputs, run at all four widths with one fixed script: the
    // access window is exactly the three variables (plus scratch), so the last cell of a minimal tape is
    // an operand (a wider-than-cell load or store of the last cell crosses the guard page)
    let bl = base;
    base += spaces::space_l(0, 2, &mut |i, c| {
        if ctx.owns(bl + i) && c.starts_with(spaces::PREFIXES[0].as_bytes()) {
            // only `a` is printed (the usual epilogue would widen the window to five cells)
            let mut v = c[..c.len() - spaces::EPILOGUE.len()].to_vec();
            v.push(b'.');
            work.push((bl + i, "L", v));
        }
    });
    let bi = base;
    base += spaces::space_i(if p.m_full { 4 } else { 3 }, &mut |i, c| {
        if ctx.owns(bi + i) {
            work.push((bi + i, "I", c.to_vec()));
        }
    });
    if with_w {
        let b2 = base;
        base += spaces::space_w(p.m_full, &mut |i, c| {
            if ctx.owns(b2 + i) {
                work.push((b2 + i, "W", c.to_vec()));
            }
        });
    }
    if with_w {
        let b3 = base;
        base += spaces::space_p(p.m_full, &mut |i, c| {
            if ctx.owns(b3 + i) {
                work.push((b3 + i, "P", c.to_vec()));
            }
        });
    }
    for (_, c) in spaces::space_k() {
        if ctx.owns(base) {
            work.push((base, "K", c));
        }
        base += 1;
    }
    work
}

fn canon_runs(p: &Plan, tag: &str, code: &[u8], w: Width) -> Vec<(Vec<u8>, Canon)> {
    let runs: Vec<(Vec<u8>, Canon)> = if tag == "W" {
        spaces::W_SCRIPTS.iter().map(|s| (s.to_vec(), refbf::run(code, w, s, p.step_cap * 4, false))).collect()
    } else if tag == "L" {
        vec![(vec![9, 4, 6], refbf::run(code, w, &[9, 4, 6], p.step_cap * 4, false))]
    } else if tag == "P" {
        spaces::W_SCRIPTS
            .iter()
            .map(|s| s.to_vec())
            .chain([spaces::P_SMALL_SCRIPT.to_vec()])
            .map(|s| {
                let c = refbf::run(code, w, &s, p.step_cap * 16, false);
                (s, c)
            })
            .collect()
    } else if tag == "M" {
        if code.contains(&b',') {
            spaces::W_SCRIPTS.iter().map(|s| (s.to_vec(), refbf::run(code, w, s, p.m_step_cap, false))).collect()
        } else {
            vec![(Vec::new(), refbf::run(code, w, &[], p.m_step_cap, false))]
        }
    } else {
        diff::explore_env(code, w, p.depth, p.step_cap, false)
    };
    runs.into_iter().filter(|(_, c)| c.verdict == Verdict::Halt).collect()
}

fn sub_code(backend: Backend, w: Width, level: u32, place: usize) -> u64 {
    (backend as u64) << 40 | (w.bits() as u64) << 32 | (level as u64 & 0xff) << 8 | place as u64
}

// ------------------------------------------------------------------------------------------ C06

pub fn c06_program(ctx: &mut WorkerCtx, p: &Plan, idx: u64, tag: &str, code: &[u8]) {
    let text = std::str::from_utf8(code).unwrap();
    ctx.count("programs", 1);
    let all_widths = Width::ALL.to_vec();
    for &w in if tag == "L" { &all_widths } else { &p.widths } {
        let runs = canon_runs(p, tag, code, w);
        ctx.count("env_nodes", runs.len() as u64);
        if runs.is_empty() {
            ctx.count("skipped_not_halting", 1);
            continue;
        }
        for backend in Backend::ALL {
            for level in levels(backend) {
                let Ok(comp) = compile(backend, w, level, text) else {
                    ctx.count("create_failed", 1);
                    continue;
                };
                for (script, canon) in &runs {
                    // cheap screen so that a miscompiled hang does not stall the guarded run
                    let cap = canon.trace.len() + 4;
                    let b0 = diff::screen_budget(canon);
                    // (the screen runs under the guard allocator as well: a stray write must never reach the
                    // checker's own heap)
                    ctx.mark(idx, sub_code(backend, w, level, PLACE_LEFT), code);
                    let (r0, log0) = diff::run_logged(&comp, Mode::Limited(b0), script, cap, Arm { place: PLACE_LEFT, fail_k: 0, fail_min: 0, zeroed_only: false });
                    if r0.alloc.canary_bad != 0 {
                        let f = Failure {
                            class: "heap-overrun".into(),
                            mode: "limited:guard-left".into(),
                            observed: diff::trace_str(&log0),
                            expected: diff::trace_str(&canon.trace),
                            first_diff: 0,
                            detail: "bytes next to an allocation were overwritten (canary damaged)".into(),
                        };
                        ctx.fail(failure_json("C06", backend, w, level, code, script, &f));
                        continue;
                    }
                    if r0.finished != Some(true) || log0 != canon.trace {
                        // behavioural disagreement is C01..C04's business; count and skip
                        ctx.count("skipped_behaviour_differs", 1);
                        continue;
                    }
                    for place in [PLACE_RIGHT, PLACE_LEFT] {
                        ctx.mark(idx, sub_code(backend, w, level, place), code);
                        ctx.count("executions", 1);
                        ctx.count("actions_compared", canon.trace.len() as u64);
                        ctx.distinct(fnv(code) ^ fnv(script).rotate_left(7) ^ (w.bits() as u64) << 55);
                        let (r, log) = diff::run_logged(&comp, Mode::Execute, script, cap, Arm { place, fail_k: 0, fail_min: 0, zeroed_only: false });
                        let place_name = if place == PLACE_RIGHT { "right" } else { "left" };
                        let mut problem: Option<(String, String)> = None;
                        if let Some(m) = r.panicked {
                            problem = Some(("panic".into(), m));
                        } else if r.alloc.canary_bad != 0 {
                            problem = Some(("heap-overrun".into(), "bytes next to an allocation were overwritten (canary damaged)".into()));
                        } else if let Some((cl, i)) = diff::classify(&log, &canon.trace) {
                            problem = Some((cl.into(), format!("I/O differs at action {i} under the guard allocator (contents lost across a reallocation?)")));
                        } else if !r.arena_reset_ok {
                            ctx.count("arena_blocks_leaked", 1);
                        }
                        if let Some((class, detail)) = problem {
                            let f = Failure {
                                class,
                                mode: format!("execute:guard-{place_name}"),
                                observed: diff::trace_str(&log),
                                expected: diff::trace_str(&canon.trace),
                                first_diff: 0,
                                detail,
                            };
                            ctx.fail(failure_json("C06", backend, w, level, code, script, &f));
                        }
                    }
                }
            }
        }
    }
}

pub fn c06_worker(ctx: &mut WorkerCtx) {
    let p = plan(ctx.tier);
    let work = gather(ctx, &p, false);
    let n = work.len();
    for (k, (idx, tag, code)) in work.into_iter().enumerate() {
        ctx.mark(idx, 0, &code);
        c06_program(ctx, &p, idx, tag, &code);
        if tag == "M" || k + 1 == n {
            ctx.sample(|| J::obj().set("space", tag).set("program", String::from_utf8_lossy(&code[..code.len().min(300)]).to_string()).set("placements", vec!["flush-right", "flush-left"]));
        }
    }
}

// ------------------------------------------------------------------------------------------ C10

fn exact_fit_margin(canon: &Canon, code_len: usize, w: Width) -> isize {
    let need = (canon.pmin.unsigned_abs().max(canon.pmax.unsigned_abs()) as usize) + code_len + 1;
    // 2*M cells must be a whole number of pages so that the single allocation has a guard page on both edges
    let cells_per_page = 4096 / (w.bits() as usize / 8);
    let half = cells_per_page / 2;
    (((need + half - 1) / half) * half) as isize
}

/// The unchecked entry point has no budget and no bounds checks: every program is judged inside a
/// forked child so that a wild run (hang, fault) costs one child and is attributed through the
/// shared case marker.
pub fn c10_program(ctx: &mut WorkerCtx, p: &Plan, idx: u64, tag: &str, code: &[u8]) {
    let r = ctx.in_child(8_000, |c| c10_program_inner(c, p, idx, tag, code));
    let what = match r {
        Iso::Done(_) => return,
        Iso::Timeout => ("hang", "execute_unsafe did not return within 8 s".to_string()),
        Iso::Signal(s) => ("crash", format!("signal {s} during execute_unsafe")),
        Iso::Exit(e) => ("crash", format!("child exited with status {e}")),
    };
    let (_, sub) = ctx.read_mark();
    let backend = if (sub >> 40) & 0xf == Backend::BaseJit as u64 { Backend::BaseJit } else { Backend::BcInt };
    let w = Width::from_bits(((sub >> 32) & 0xff) as u32).unwrap_or(Width::W8);
    let level = ((sub >> 8) & 0xff) as u32;
    let f = Failure {
        class: what.0.into(),
        mode: "unsafe".into(),
        observed: String::new(),
        expected: String::new(),
        first_diff: 0,
        detail: what.1,
    };
    ctx.fail(failure_json("C10", backend, w, level, code, &[], &f));
}

fn c10_program_inner(ctx: &mut WorkerCtx, p: &Plan, idx: u64, tag: &str, code: &[u8]) {
    let text = std::str::from_utf8(code).unwrap();
    ctx.count("programs", 1);
    let mut widths = p.widths.clone();
    if tag == "M" && !widths.contains(&Width::W16) {
        widths.push(Width::W16);
    }
    for &w in &widths {
        let runs = canon_runs(p, tag, code, w);
        ctx.count("env_nodes", runs.len() as u64);
        if runs.is_empty() {
            continue;
        }
        for backend in [Backend::BcInt, Backend::BaseJit] {
            for level in levels(backend) {
                let Ok(comp) = compile(backend, w, level, text) else {
                    ctx.count("create_failed", 1);
                    continue;
                };
                for (script, canon) in &runs {
                    let cap = canon.trace.len() + 4;
                    let b0 = diff::screen_budget(canon);
                    // the unchecked entry has no budget: only run it after the checked twin agreed
                    let (r0, log0) = diff::run_logged(&comp, Mode::Limited(b0), script, cap, Arm::default());
                    if r0.finished != Some(true) || log0 != canon.trace {
                        ctx.count("skipped_checked_twin_differs", 1);
                        continue;
                    }
                    let m = exact_fit_margin(canon, code.len(), w);
                    ctx.mark(idx, sub_code(backend, w, level, PLACE_RIGHT), code);
                    ctx.count("executions", 1);
                    ctx.count("actions_compared", canon.trace.len() as u64);
                    ctx.distinct(fnv(code) ^ fnv(script).rotate_left(7) ^ (w.bits() as u64) << 55);
                    let mode = Mode::Unsafe { lo: -m, hi: m };
                    let (r, log) = diff::run_logged(&comp, mode, script, cap, Arm { place: PLACE_RIGHT, fail_k: 0, fail_min: 0, zeroed_only: false });
                    let mut problem: Option<(String, String)> = None;
                    if let Some(msg) = r.panicked {
                        problem = Some(("panic".into(), msg));
                    } else if r.alloc.canary_bad != 0 {
                        problem = Some(("heap-overrun".into(), "canary next to an allocation damaged".into()));
                    } else if let Some((cl, i)) = diff::classify(&log, &canon.trace) {
                        problem = Some((cl.into(), format!("unchecked run differs from the canonical trace at action {i}")));
                    }
                    if let Some((class, detail)) = problem {
                        let f = Failure {
                            class,
                            mode: diff::mode_str(mode),
                            observed: diff::trace_str(&log),
                            expected: diff::trace_str(&canon.trace),
                            first_diff: 0,
                            detail,
                        };
                        ctx.fail(failure_json("C10", backend, w, level, code, script, &f));
                    }
                }
            }
        }
    }
}

pub fn c10_worker(ctx: &mut WorkerCtx) {
    let p = plan(ctx.tier);
    let work = gather(ctx, &p, true);
    let n = work.len();
    for (k, (idx, tag, code)) in work.into_iter().enumerate() {
        ctx.mark(idx, 0, &code);
        c10_program(ctx, &p, idx, tag, &code);
        if k % (n / 4 + 1) == 0 {
            ctx.sample(|| J::obj().set("space", tag).set("program", String::from_utf8_lossy(&code[..code.len().min(300)]).to_string()).set("tape", "make_accessible(-M, M), 2M cells = whole pages, guard page on both edges"));
        }
    }
}

// ------------------------------------------------------------------------------------------ C17

fn c17_run(comp: &Compiled, mode: Mode, k: usize) -> (Iso, usize) {
    // returns the child's fate; the child reports the number of armed requests it saw
    let r = isolated(20_000, || {
        // the abort path prints to stderr; keep the logs readable
        unsafe {
            let fd = libc::open(c"/dev/null".as_ptr(), libc::O_WRONLY);
            if fd >= 0 {
                libc::dup2(fd, 2);
            }
        }
        let (r, log) = diff::run_logged(comp, mode, &[1, 2, 3], 1 << 16, Arm { place: PLACE_RIGHT, fail_k: k, fail_min: 1, zeroed_only: true });
        let mut v = Vec::new();
        v.extend_from_slice(&(r.alloc.big_requests as u32).to_le_bytes());
        v.extend_from_slice(&(r.alloc.failed as u32).to_le_bytes());
        v.push(r.panicked.is_some() as u8);
        v.extend_from_slice(&(log.len() as u32).to_le_bytes());
        v
    });
    let n = match &r {
        Iso::Done(b) if b.len() >= 4 => u32::from_le_bytes(b[0..4].try_into().unwrap()) as usize,
        _ => 0,
    };
    (r, n)
}

pub fn c17_program(ctx: &mut WorkerCtx, code: &[u8], kmax: usize) {
    let text = std::str::from_utf8(code).unwrap();
    ctx.count("programs", 1);
    for backend in Backend::ALL {
        for (w, level) in [(Width::W8, 2u32), (Width::W64, 2), (Width::W16, 0)] {
            if backend == Backend::Inplace && level != 0 {
                continue;
            }
            let Ok(comp) = compile(backend, w, level, text) else { continue };
            for mode in [Mode::Execute, Mode::Limited(1 << 40)] {
                // fault-free run: how many armed requests are there?
                let (r0, total) = c17_run(&comp, mode, 0);
                if !matches!(r0, Iso::Done(_)) || total == 0 {
                    ctx.count("fault_free_run_failed", 1);
                    continue;
                }
                ctx.maxstat("requests_in_one_run", total as u64);
                for k in 1..=total.min(kmax) {
                    ctx.count("executions", 1);
                    ctx.count("evaluations", 1);
                    ctx.distinct(fnv(code) ^ (k as u64) << 48 ^ (backend as u64) << 40 ^ (w.bits() as u64) << 32 ^ matches!(mode, Mode::Execute) as u64);
                    let (r, _) = c17_run(&comp, mode, k);
                    let verdict: Option<(String, String)> = match r {
                        Iso::Signal(s) if s == libc::SIGABRT => None,
                        Iso::Signal(s) => Some(("wild-access".into(), format!("process died with signal {s} instead of aborting"))),
                        Iso::Exit(101) => None,
                        Iso::Exit(e) => Some(("exit".into(), format!("process exited with status {e}"))),
                        Iso::Timeout => Some(("hang".into(), "no result within 20 s".into())),
                        Iso::Done(b) => {
                            let failed = b.len() >= 8 && u32::from_le_bytes(b[4..8].try_into().unwrap()) > 0;
                            let panicked = b.len() >= 9 && b[8] != 0;
                            if !failed {
                                // the k-th request did not happen in this run (nondeterministic count): not a verdict
                                ctx.count("fault_not_injected", 1);
                                None
                            } else if panicked {
                                None
                            } else {
                                Some(("continued".into(), "execution returned normally although an allocation request failed".into()))
                            }
                        }
                    };
                    if let Some((class, detail)) = verdict {
                        let f = Failure {
                            class,
                            mode: format!("{}:alloc-fail", diff::mode_str(mode).split(':').next().unwrap()),
                            observed: String::new(),
                            expected: "SIGABRT (handle_alloc_error) or a panic".into(),
                            first_diff: k,
                            detail: format!("request {k} of {total}: {detail}"),
                        };
                        let script = [k as u8];
                        ctx.fail(failure_json("C17", backend, w, level, code, &script, &f));
                    }
                }
            }
        }
    }
}

fn c17_programs() -> Vec<Vec<u8>> {
    let mut v = Vec::new();
    // growers: right, left, both directions, scans, static far offsets
    for (k, s) in [(2usize, 3usize), (3, 40), (4, 700), (2, 3000)] {
        for dir in [b'>', b'<'] {
            let back = if dir == b'>' { b'<' } else { b'>' };
            // walk away, write, walk back, read: growth on one side, then revisit
            let mut p = Vec::new();
            p.push(back);
            p.extend_from_slice(b"+++");
            p.push(dir);
            spaces::walk(&mut p, k, s, dir);
            p.extend_from_slice(b"++.");
            p.push(dir);
            spaces::walk(&mut p, k, s, back);
            p.push(back);
            p.push(back);
            p.push(b'.');
            v.push(p);
        }
        // both directions alternately
        let mut p = Vec::new();
        spaces::walk(&mut p, k, s, b'>');
        p.extend_from_slice(b"+.>");
        spaces::walk(&mut p, 2 * k, s, b'<');
        p.extend_from_slice(b"+.<");
        spaces::walk(&mut p, 3 * k, s, b'>');
        p.extend_from_slice(b"+.");
        v.push(p);
    }
    v.push(b"++++++++[->>[>]+[<]<]>>[>]<.[<]>>.".to_vec());
    v.push(b"++++++++[-<<[<]+[>]>]<<[<]>.[>]<<.".to_vec());
    let mut far = Vec::new();
    for _ in 0..3000 {
        far.push(b'>');
    }
    far.extend_from_slice(b"+.");
    for _ in 0..7000 {
        far.push(b'<');
    }
    far.extend_from_slice(b"+.");
    v.push(far);
    v.push(b",[.>,]<[<]>[.>]".to_vec());
    for (n, c) in spaces::space_k() {
        if ["simple_execution", "test_program_access_distant_cell", "single_connected_component", "dependent_pending_operations"].contains(&n.as_str()) {
            v.push(c);
        }
    }
    v
}

pub fn c17_worker(ctx: &mut WorkerCtx) {
    let kmax = if ctx.tier == Tier::Quick { 12 } else { 64 };
    for (i, code) in c17_programs().into_iter().enumerate() {
        if ctx.owns(i as u64) {
            ctx.mark(i as u64, 0, &code);
            c17_program(ctx, &code, kmax);
            ctx.sample(|| J::obj().set("program", String::from_utf8_lossy(&code[..code.len().min(200)]).to_string()).set("fault", "k-th allocation request made during execute/execute_limited returns null, k = 1..K"));
        }
    }
}

// ------------------------------------------------------------------------------------------ replay / info

pub fn replay_program(ctx: &mut WorkerCtx, prop: &str, code: &[u8]) {
    let p = plan(ctx.tier);
    // the recorded program may come from any space: re-judge it under every script policy
    let tags: &[&str] = if code.starts_with(b"++>>,>") || code.starts_with(b"+>>,>") { &["W"] } else { &["A", "M"] };
    for tag in tags {
        match prop {
            "C06" => c06_program(ctx, &p, 0, tag, code),
            "C10" => c10_program(ctx, &p, 0, tag, code),
            _ => {
                c17_program(ctx, code, 64);
                break;
            }
        }
    }
}

pub fn info(prop: &'static str, tier: Tier) -> CheckInfo {
    let p = plan(tier);
    match prop {
        "C06" => CheckInfo {
            id: "C06",
            level: "model_checking",
            rule: format!(
                "Every program of A(len<={}), S(1,{}), the regression corpus, K, I(3) (loops around shifting at-most-once loops), L (every straight-line pair of statements over three \
                 inputs printing one cell, so that the last cell of a minimal tape is an operand; all four widths), the stride loops T and the walker family M (dynamic walks of k hops x s cells in \
                 both directions up to {} cells, walks that mark, leave and revisit cells, scans over runs laid down before, zig-zags \
                 crossing several reallocations in both directions) is executed in checked mode on all four backends, levels 0..3, \
                 widths {:?}, with every heap allocation made during execution placed by an instrumented global allocator flush against \
                 a PROT_NONE guard page — once on the right, once on the left (the tape has an array layout, so it is checked byte-exactly; \
                 alignment slack carries a canary). Oracle: the process survives, the canaries are intact, and the I/O log equals the \
                 canonical trace (contents survived every reallocation). states = choice-tree nodes, transitions = I/O actions compared.",
                p.a_len, p.s_k, if p.m_full { 9000 } else { 1000 }, p.widths.iter().map(|w| w.bits()).collect::<Vec<_>>()
            ),
            assumptions: vec![
                "an out-of-allocation access on the unguarded side of a block is caught by the run with the other placement".into(),
                "the JIT's code pages come from mmap and are not instrumented".into(),
            ],
            bounds: J::obj().set("A_max_len", p.a_len).set("S_max_statements", p.s_k).set("walker_full", p.m_full).set("step_cap_walkers", p.m_step_cap),
            exhaustive: true,
            hang_secs: 60,
        },
        "C10" => CheckInfo {
            id: "C10",
            level: "model_checking",
            rule: format!(
                "Every halting program of A(len<={}), S(1,{}), W, M, regression corpus and K whose checked, budget-screened twin produced the \
                 canonical trace is run through execute_unsafe on the bytecode interpreter and the baseline JIT at levels 0..3 and widths \
                 {:?}, on a tape pre-grown with one make_accessible(-M, M) where M is the smallest value >= (canonical pointer excursion at \
                 that width + program length + 1) that makes 2M cells a whole number of pages, so the single exact-fit allocation sits \
                 between two guard pages. Oracle: no fault, canonical I/O trace.",
                p.a_len, p.s_k, p.widths.iter().map(|w| w.bits()).collect::<Vec<_>>()
            ),
            assumptions: vec!["the margin of the property (program length on each side) is computed from the canonical run at the width under test".into()],
            bounds: J::obj().set("A_max_len", p.a_len).set("S_max_statements", p.s_k),
            exhaustive: true,
            hang_secs: 60,
        },
        _ => CheckInfo {
            id: "C17",
            level: "fault_enumeration",
            rule: "For each grower program (dynamic walks right and left, scans, static far offsets in both directions, an echo loop, four corpus \
                   programs) x backend x (width, level) in {(8,2),(64,2),(16,0)} x entry point {execute, execute_limited}: the fault-free run \
                   counts the alloc_zeroed / realloc requests made during execution (N); then for every k = 1..min(N, K) one run in its own process in \
                   which exactly the k-th request returns null, under the guard-page allocator. Oracle: the process ends by SIGABRT \
                   (handle_alloc_error) or by a panic; SIGSEGV/SIGBUS or a normal return is a violation. distinct = distinct \
                   (program, backend, width, entry, k)."
                .into(),
            assumptions: vec!["candidates are the alloc_zeroed requests (tape growth, interpreter context) and the realloc requests (in-place growth; Vec growth, which fails cleanly through handle_alloc_error) made while executing".into()],
            bounds: J::obj().set("max_k", if tier == Tier::Quick { 12 } else { 64 }),
            exhaustive: true,
            hang_secs: 120,
        },
    }
}
