//! C01–C04: a backend's I/O event sequence equals the canonical one on every explored
//! (program, width, level, input script) whenever the canonical run halts.

use hshim::exec::{compile, Backend, CompileErr, Width};

use crate::diff::{self, failure_json, judge_halting};
use crate::framework::{fnv, CheckInfo, Tier, WorkerCtx};
use crate::json::J;
use crate::refbf::Verdict;
use crate::spaces;

pub struct Plan {
    pub a_len: usize,
    pub a_len_allwidths: usize,
    pub b_tokens: usize,
    pub s_k: usize,
    pub s_inner: usize,
    pub depth: usize,
    pub s_depth: usize,
    pub step_cap: u64,
    pub widths: Vec<Width>,
    pub w_full: bool,
    pub n_depth: usize,
    /// maximal length of the A programs that get comment insertions (0 = none)
    pub comments: usize,
}

pub fn plan(tier: Tier, backend: Backend) -> Plan {
    let extra = if backend == Backend::Inplace { 1 } else { 0 };
    match tier {
        Tier::Quick => Plan {
            a_len: 6 + extra,
            a_len_allwidths: 5,
            b_tokens: 4,
            s_k: 2,
            s_inner: 0,
            depth: 2,
            s_depth: 2,
            step_cap: 20_000,
            widths: vec![Width::W8, Width::W64],
            w_full: false,
            n_depth: if backend == Backend::IrInt { 5 } else { 4 },
            comments: if backend == Backend::Inplace { 5 } else { 0 },
        },
        Tier::Thorough => Plan {
            a_len: 8,
            a_len_allwidths: if backend == Backend::IrInt || backend == Backend::Inplace { 8 } else { 7 },
            b_tokens: if backend == Backend::IrInt || backend == Backend::Inplace { 6 } else { 5 },
            s_k: 3,
            s_inner: 1,
            depth: 3,
            s_depth: 2,
            step_cap: 100_000,
            widths: Width::ALL.to_vec(),
            w_full: true,
            n_depth: if backend == Backend::IrInt { 5 } else { 4 },
            comments: if backend == Backend::Inplace { 6 } else { 4 },
        },
    }
}

pub fn levels(backend: Backend) -> Vec<u32> {
    match backend {
        Backend::Inplace => vec![0],
        Backend::IrInt => vec![0, 1, 2, 3, 4, u32::MAX],
        _ => vec![0, 1, 2, 3],
    }
}

/// Enumerate the program spaces of a plan: f(global index, space tag, program).
pub fn enumerate(p: &Plan, f: &mut dyn FnMut(u64, &'static str, &[u8])) -> u64 {
    let mut base = 0u64;
    if let Ok(path) = std::env::var("MC_PROGRAMS") {
        // development aid: judge exactly the programs listed in a file
        for line in std::fs::read_to_string(path).unwrap_or_default().lines() {
            f(base, "S", line.as_bytes());
            base += 1;
        }
        return base;
    }
    for c in spaces::space_r() {
        f(base, "R", &c);
        base += 1;
    }
    let only = std::env::var("MC_SPACES").ok();
    let want = |t: &str| only.as_deref().map_or(true, |o| o.split(',').any(|x| x == t));
    let f: &mut dyn FnMut(u64, &'static str, &[u8]) = &mut |i, t, c| {
        if want(t) {
            f(i, t, c)
        }
    };
    base += spaces::space_a(p.a_len, &mut |i, c| f(base + i, "A", c));
    let b0 = base;
    base += spaces::space_b(p.b_tokens, &mut |i, c| f(b0 + i, "B", c));
    let s0 = base;
    base += spaces::space_s(p.s_k.min(2), 0, &mut |i, c| f(s0 + i, "S", c));
    let sp = base;
    base += spaces::space_sp(&mut |i, c| f(sp + i, "S", c));
    // straight-line statement sequences (no enclosing loop)
    let l0 = base;
    base += spaces::space_l(0, 2, &mut |i, c| f(l0 + i, "S", c));
    if p.s_k >= 3 {
        let l3 = base;
        base += spaces::space_l(3, 3, &mut |i, c| f(l3 + i, "S3", c));
    } else {
        let l3 = base;
        base += spaces::space_l3_reduced(&mut |i, c| f(l3 + i, "S", c));
    }
    if p.s_k < 3 && p.n_depth >= 5 {
        // quick tier of the IR interpreter: three additive statements (the full three-statement space is thorough only)
        let s3r = base;
        base += spaces::space_s3_reduced(&mut |i, c| f(s3r + i, "S3", c));
    }
    if p.s_k >= 3 {
        // three-statement bodies: the largest sub-space; run at the extreme widths with a shallower input tree
        let s3 = base;
        base += spaces::space_s_range(3, p.s_k, 0, &mut |i, c| f(s3 + i, "S3", c));
    }
    if p.s_inner > 0 {
        let s1 = base;
        base += spaces::space_s(2, p.s_inner, &mut |i, c| f(s1 + i, "S2", c));
    }
    let w0 = base;
    base += spaces::space_w(p.w_full, &mut |i, c| f(w0 + i, "W", c));
    let p0 = base;
    base += spaces::space_p(p.w_full, &mut |i, c| f(p0 + i, "P", c));
    for c in spaces::space_v() {
        f(base, "V", &c);
        base += 1;
    }
    for c in spaces::space_t(p.w_full) {
        f(base, "T", &c);
        base += 1;
    }
    for c in spaces::space_q() {
        f(base, "Q", &c);
        base += 1;
    }
    if p.comments > 0 {
        // "every other character is a comment": every program of A(<= comments) with one comment string
        // (multi-byte UTF-8, look-alike code points, ASCII + newline) inserted at every position
        let c0 = base;
        let mut n = 0u64;
        spaces::space_a(p.comments, &mut |_, c| {
            if !c.contains(&b'[') && !c.contains(&b'.') {
                return;
            }
            for ins in ["\u{e9}", "x\n", "\u{1F600}", "\u{12b}\u{15b}"] {
                for pos in 0..=c.len() {
                    let mut v = c[..pos].to_vec();
                    v.extend_from_slice(ins.as_bytes());
                    v.extend_from_slice(&c[pos..]);
                    f(c0 + n, "C", &v);
                    n += 1;
                }
            }
        });
        base += n;
    }
    let i0 = base;
    base += spaces::space_i(if p.w_full { 4 } else { 3 }, &mut |i, c| f(i0 + i, "I", c));
    let n0 = base;
    base += spaces::space_n(p.w_full, p.n_depth, &mut |i, c| f(n0 + i, "N", c));
    for (_, c) in spaces::space_k() {
        f(base, "K", &c);
        base += 1;
    }
    // D: nesting families around the 8-bit / 7-bit counter boundaries
    for n in [1usize, 2, 3, 7, 64, 127, 128, 129, 255, 256, 257, 300] {
        for c in [spaces::nest_open_close(n), spaces::nest_counted(n), spaces::nest_skipped_then_print(n)] {
            f(base, "D", &c);
            base += 1;
        }
    }
    base
}

pub fn worker(ctx: &mut WorkerCtx, prop: &'static str, backend: Backend) {
    let p = plan(ctx.tier, backend);
    let mut work: Vec<(u64, &'static str, Vec<u8>)> = Vec::new();
    enumerate(&p, &mut |idx, tag, code| {
        if ctx.owns(idx) {
            work.push((idx, tag, code.to_vec()));
        }
    });
    for (idx, tag, code) in work {
        ctx.mark(idx, 0, &code);
        judge_program(ctx, &p, prop, backend, tag, &code);
    }
}

pub fn replay_program(ctx: &mut WorkerCtx, prop: &'static str, backend: Backend, code: &[u8]) {
    let p = plan(ctx.tier, backend);
    // replay with the widest settings of the plan ("K" never restricts widths by length)
    let tag = if code.len() <= p.a_len_allwidths {
        "A"
    } else if code.starts_with(b"++>>,>") || code.starts_with(b"+>>,>") {
        "W"
    } else if code.starts_with(b"++>,>,") || code.starts_with(b"+>,>,") {
        "P"
    } else if code.starts_with(b",[---") {
        "Q"
    } else if code.starts_with(b",[>++++++++++++++++<-]>") {
        "V"
    } else {
        "K"
    };
    judge_program(ctx, &p, prop, backend, tag, code);
    if tag == "K" {
        judge_program(ctx, &p, prop, backend, "S", code);
    }
}

pub fn judge_program(ctx: &mut WorkerCtx, p: &Plan, prop: &'static str, backend: Backend, tag: &str, code: &[u8]) {
    let lv = levels(backend);
    let all_widths = Width::ALL.to_vec();
    let code = code.to_vec();
    {
        ctx.count("programs", 1);
        let extreme = [Width::W8, Width::W64];
        let widths: &[Width] = if tag == "S3" {
            &extreme
        } else if tag == "A" && code.len() <= p.a_len_allwidths {
            &all_widths
        } else {
            &p.widths
        };
        for &w in widths.iter() {
            let depth = if tag == "S3" {
                1
            } else if tag.starts_with('S') {
                p.s_depth
            } else {
                p.depth
            };
            let mut lenient: std::collections::HashSet<Vec<u8>> = std::collections::HashSet::new();
            let runs = if tag == "W" {
                // wide assignments need all cells distinct and non-zero: fixed scripts, no choice tree
                spaces::W_SCRIPTS
                    .iter()
                    .map(|s| {
                        let c = crate::refbf::run(&code, w, s, p.step_cap * 4, false);
                        if c.verdict != Verdict::Halt {
                            // the wide-constant forms add 2^37+3 one unit at a time at 64 bit: accelerated reference,
                            // lenient judgement on optimising configurations
                            let a = crate::refbf::run_opt(&code, w, s, p.step_cap * 4, false, true);
                            if a.verdict == Verdict::Halt {
                                lenient.insert(s.to_vec());
                                return (s.to_vec(), a);
                            }
                        }
                        (s.to_vec(), c)
                    })
                    .collect()
            } else if tag == "P" {
                // prefix chains: fixed scripts (distinct non-zero bytes, and small values so that products stay
                // small); naive reference with a larger step cap (the multiply links are nested loops)
                spaces::W_SCRIPTS
                    .iter()
                    .map(|s| s.to_vec())
                    .chain([spaces::P_SMALL_SCRIPT.to_vec()])
                    .map(|s| {
                        let c = crate::refbf::run(&code, w, &s, p.step_cap * 16, false);
                        if c.verdict != Verdict::Halt {
                            // e.g. a 2^37 constant added one unit at a time: only the accelerated reference
                            // finishes; such cases are judged leniently on optimising configurations
                            let a = crate::refbf::run_opt(&code, w, &s, p.step_cap * 16, false, true);
                            if a.verdict == Verdict::Halt {
                                lenient.insert(s.clone());
                                return (s, a);
                            }
                        }
                        (s, c)
                    })
                    .collect()
            } else if tag == "Q" {
                // quotient probes: every single input byte
                (1..=255u8).map(|b| (vec![b], crate::refbf::run(&code, w, &[b], p.step_cap, false))).collect()
            } else if tag == "V" {
                // wide values: the multiplier loops run up to 2^60 times canonically; the reference closes
                // them in one step (accelerated mode, validated against the naive mode in C04) and only
                // optimising configurations are executed
                let mut v = Vec::new();
                for a in diff::INPUT_ALPHABET {
                    v.push((vec![a], crate::refbf::run_opt(&code, w, &[a], p.step_cap, false, true)));
                    v.push((vec![a, 3], crate::refbf::run_opt(&code, w, &[a, 3], p.step_cap, false, true)));
                }
                v
            } else {
                let mut v = diff::explore_env(&code, w, depth, p.step_cap, false);
                if tag == "R" || tag == "K" {
                    // corpus programs may read long inputs: add the fixed scripts of distinct non-zero bytes
                    for s in spaces::W_SCRIPTS {
                        v.push((s.to_vec(), crate::refbf::run(&code, w, s, p.step_cap * 4, false)));
                    }
                    v.push((b"abcdefghijklmnopqrstuvwxyz".to_vec(), crate::refbf::run(&code, w, b"abcdefghijklmnopqrstuvwxyz", p.step_cap * 4, false)));
                    let small: Vec<u8> = (0..30u8).map(|i| i % 3 + 1).collect();
                    let c = crate::refbf::run(&code, w, &small, p.step_cap * 4, false);
                    v.push((small, c));
                }
                v
            };
            ctx.count("env_nodes", runs.len() as u64);
            let halting: Vec<_> = runs.into_iter().filter(|(_, c)| c.verdict == Verdict::Halt).collect();
            if halting.is_empty() {
                ctx.count("skipped_not_halting", 1);
                continue;
            }
            for (s, c) in &halting {
                if !c.trace.is_empty() || c.bracket_execs > 0 {
                    let mut h = fnv(&code);
                    h ^= fnv(s).rotate_left(17) ^ (w.bits() as u64) << 56;
                    ctx.distinct(h);
                }
            }
            if backend == Backend::Inplace && w == Width::W8 && tag == "A" {
                // validate the accelerated reference against the naive one on everything it is used for
                for (s, c) in &halting {
                    let a = crate::refbf::run_opt(&code, w, s, p.step_cap, false, true);
                    ctx.count("accel_reference_validated", 1);
                    if a.verdict != c.verdict || a.trace != c.trace || a.pmin != c.pmin || a.pmax != c.pmax {
                        let f = diff::Failure {
                            class: "reference-accel".into(),
                            mode: "reference".into(),
                            observed: diff::trace_str(&a.trace),
                            expected: diff::trace_str(&c.trace),
                            first_diff: 0,
                            detail: "MACHINERY: accelerated reference differs from the naive reference".into(),
                        };
                        ctx.fail(failure_json(prop, backend, w, 0, &code, s, &f));
                    }
                }
            }
            for &level in &lv {
                if tag == "V" && (level == 0 || backend == Backend::Inplace) {
                    continue;
                }
                ctx.beat((w.bits() as u64) << 32 | level as u64 & 0xffff);
                let comp = match compile(backend, w, level, std::str::from_utf8(&code).unwrap()) {
                    Ok(c) => c,
                    Err(CompileErr::Panic(msg)) => {
                        ctx.count("create_panics", 1);
                        if diff::profile() == "release" {
                            let f = diff::Failure {
                                class: "create-panic".into(),
                                mode: "create".into(),
                                observed: String::new(),
                                expected: String::new(),
                                first_diff: 0,
                                detail: msg,
                            };
                            ctx.fail(failure_json(prop, backend, w, level, &code, &[], &f));
                        }
                        continue;
                    }
                    Err(e) => {
                        let f = diff::Failure {
                            class: "create-error".into(),
                            mode: "create".into(),
                            observed: format!("{e:?}"),
                            expected: "Ok".into(),
                            first_diff: 0,
                            detail: String::new(),
                        };
                        ctx.fail(failure_json(prop, backend, w, level, &code, &[], &f));
                        continue;
                    }
                };
                if backend == Backend::BaseJit {
                    if let Some(bc) = comp.bytecode(false) {
                        for inst in &bc.insts {
                            if let Some(f) = crate::forms::jit_form(inst, w) {
                                ctx.count(&format!("form:{f}"), 1);
                            }
                        }
                    }
                }
                for (script, canon) in &halting {
                    ctx.count("executions", 1);
                    ctx.count("actions_compared", canon.trace.len() as u64);
                    if lenient.contains(script) {
                        if level == 0 || backend == Backend::Inplace {
                            continue;
                        }
                        ctx.count("accel_only_cases", 1);
                        match diff::judge_halting_lenient(&comp, script, canon) {
                            Ok(true) => {}
                            Ok(false) => ctx.count("accel_only_inconclusive", 1),
                            Err(f) => ctx.fail(failure_json(prop, backend, w, level, &code, script, &f)),
                        }
                        continue;
                    }
                    let key = diff::case_key(prop, backend, w, level, "execute", &code, script);
                    let known_hang = matches!(ctx.known.members.get(&key), Some((_, c)) if c == "hang");
                    if let Err(f) = judge_halting(&comp, script, canon, known_hang) {
                        ctx.fail(failure_json(prop, backend, w, level, &code, script, &f));
                    }
                }
            }
            let interesting = code.contains(&b'[') && halting[halting.len() - 1].1.trace.len() >= 2;
            if interesting {
                ctx.sample(|| {
                    let (s, c) = &halting[halting.len() - 1];
                J::obj()
                    .set("program", String::from_utf8_lossy(&code).to_string())
                    .set("width", w.bits())
                    .set("script", diff::script_hex(s))
                    .set("canonical_trace", diff::trace_str(&c.trace))
                        .set("levels", lv.iter().map(|&l| l as u64).collect::<Vec<_>>())
                        .set("space", tag)
                });
            }
        }
    }
}

pub fn info(tier: Tier, prop: &'static str, backend: Backend) -> CheckInfo {
    let p = plan(tier, backend);
    CheckInfo {
        id: prop,
        level: "model_checking",
        rule: format!(
            "Bounded exhaustive enumeration, no sampling. Program spaces: R (every program that ever exposed a defect), A (every \
             balanced string over +-<>.,[] of length <= {}), B (every sequence of <= {} idiom tokens), S (statement language over three \
             variables: x+=1, x-=1, x=0, out, in, x+=y destructive/preserving, x=y, x+=2y, x+=3y, x-=y, x+=y*z, x+=y*y; every body of \
             <= {} statements inside 4 loop shapes, 3 initialisations; also every loop around <= 1 statement followed by one statement \
             after the loop; also every straight-line sequence of <= 2 statements at top level (3 in the thorough tier; in the quick tier the compute / disturb / overwrite triples)){}, W (k-cell rotations with per-cell forms copy/x2/x3/negate/ \
             shared/shared+const/+const/div3/product/wide constant: default, every single deviation, uniform and alternating \
             assignments{}), P (prefix chains: k data cells, one loop iteration runs the links d[i+1] op= d[i] in order with op from \
             add/sub/add+5/add 3x/mul/reverse-sub/add-7/mul then x3/add + wide constant/mul + wide constant, so partial sums and \
             products are long-lived shared temporaries: uniform chains, every single deviation{} from the add and mul chains; the \
             wide constant is 2^37+3 so that a lost constant shows in the low byte; cases only the accelerated reference can finish \
             are judged leniently on optimising configurations: a finished run must equal the canonical trace, an unfinished one is \
             inconclusive and counted), T (stride loops: a loop with a net shift of exactly n cells in either direction executed \
             twice, n around the +-128-byte and page boundaries), Q (quotient probes `,[-{{s}}>+<]>-{{q}}[[-]<+.>]<.` for odd steps s: \
             the closed-form trip count is compared with q by a zero test, on every single input byte){}, \
             V (an input byte shifted left by 4k bits, k up to 16, used as loop/branch condition; optimising \
             configurations only, accelerated reference), N (a loop whose body is every sequence of <= {} tokens from moves, scans \
             [>] [<], stationary loops [] [-], + and . that contains a scan, 3 prefixes, with and without a final output), I (an outer loop around every sequence of <= 3 tokens (4 thorough) from , . + - > < [-] [>[-]] [<[-]] [[-]>] \
             that contains a shifting at-most-once loop, 3 prefixes, 3 suffixes) and the \
             repository corpus K. For each program and width the input choice tree \
             is explored on demand (alphabet {{0,1,2,128,255}} then end of input, depth {}; depth {} for S; fixed scripts of distinct \
             non-zero bytes for W, V, R and K). Every node whose canonical run halts within {} steps is executed on backend `{}` at \
             levels {:?} through execute_limited (screen, 4*steps+64) and then execute; the shared I/O log is compared action by action \
             with the canonical trace. A screen failure is escalated (x16 budget) and then observed through the unlimited run in a \
             forked child under a 2 s watchdog (at most {} wall-clock confirmations per worker, afterwards the escalated budget run is \
             the evidence). states = explored choice-tree nodes (program,width,script); transitions = I/O actions compared; a case is \
             non-trivial if its canonical run performs I/O or executes a bracket; distinct = distinct (program,width,script) among those.",
            p.a_len,
            p.b_tokens,
            p.s_k.min(2),
            match (p.s_k >= 3, p.s_inner > 0) {
                (true, true) => ", three-statement bodies at widths 8 and 64 with a depth-1 input tree, and bodies of <= 2 pieces containing one inner loop around <= 1 statement",
                (true, false) => ", three-statement bodies at widths 8 and 64 with a depth-1 input tree",
                _ => "",
            },
            if p.w_full { ", every pair of deviations, k in {2,3,5,8,10..16}" } else { ", k in {2,3,11,12,13,14}" },
            if p.w_full { " (k in {3,6,10,12..16,18}) and every pair of deviations from the add and mul chains (k in {3,6,12,13,14,16})" } else { ", k in {3,12,14,16}" },
            if p.comments > 0 { format!(", C (every program of A(<= {}) containing a loop or an output with one comment string - multi-byte UTF-8, look-alike code points U+012B U+015B, ASCII+newline - inserted at every position)", p.comments) } else { String::new() },
            p.n_depth,
            p.depth,
            p.s_depth,
            p.step_cap,
            backend.name(),
            levels(backend),
            diff::MAX_HANG_CONFIRMATIONS
        ),
        assumptions: vec![
            "canonical reference interpreter refbf (independent implementation, /verif/mc/mc/src/refbf.rs) is the specification".into(),
            "programs longer than the spaces, inputs outside the alphabet and canonical runs above the step cap are outside the bound (counted as skipped)".into(),
            "end of input is sticky (a reader that returned 0 keeps returning 0)".into(),
        ],
        bounds: J::obj()
            .set("A_max_len", p.a_len)
            .set("B_max_tokens", p.b_tokens)
            .set("S_max_statements", p.s_k)
            .set("S2_inner_statements", p.s_inner)
            .set("input_depth", p.depth)
            .set("input_depth_S", p.s_depth)
            .set("step_cap", p.step_cap)
            .set("widths", p.widths.iter().map(|w| w.bits() as u64).collect::<Vec<_>>())
            .set("levels", levels(backend).iter().map(|&l| l as u64).collect::<Vec<_>>()),
        exhaustive: true,
        hang_secs: 30,
    }
}
