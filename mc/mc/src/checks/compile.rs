//! C13: compilation is total, deterministic and leaves executors reusable; no blow-up.
//!
//! Parts (each its own sub-check so that they shard independently):
//!  C13.total.<profile>  create() of every executor for every program of the spaces, no panic
//!  C13.det              digests of IR / bytecode / machine code computed by two different worker
//!                       processes (different hash seeds, ASLR off) and twice inside each, with
//!                       unrelated compilations in between
//!  C13.reuse            compile/execute histories: every execution equals the executor's first
//!  C13.scale            scaling families: create() time and output size stay polynomial

use std::time::Instant;

use hshim::exec::{compile, ir_text, translate, Backend, CompileErr, Mode, Width};
use hshim::galloc::Arm;

use crate::diff;
use crate::framework::{fnv, isolated, CheckInfo, Iso, Tier, WorkerCtx};
use crate::json::J;
use crate::spaces;

struct Plan {
    a_len: usize,
    b_tokens: usize,
    s_k: usize,
    det_a_len: usize,
    nest_max: usize,
    scale_max: usize,
    w_full: bool,
    widths: Vec<Width>,
}

fn plan(tier: Tier) -> Plan {
    match tier {
        Tier::Quick => Plan { a_len: 6, b_tokens: 4, s_k: 2, det_a_len: 5, nest_max: 256, scale_max: 40, w_full: false, widths: vec![Width::W8, Width::W64] },
        Tier::Thorough => Plan { a_len: 8, b_tokens: 6, s_k: 3, det_a_len: 7, nest_max: 400, scale_max: 64, w_full: true, widths: Width::ALL.to_vec() },
    }
}

fn programs(ctx: &WorkerCtx, p: &Plan, a_len: usize, also_next_shard: bool) -> Vec<(u64, Vec<u8>)> {
    let mut work = Vec::new();
    let mine = |idx: u64| {
        if ctx.only.is_some() {
            return ctx.owns(idx);
        }
        ctx.owns(idx) || (also_next_shard && idx % ctx.nshards == (ctx.shard + 1) % ctx.nshards)
    };
    let mut base = 0u64;
    for c in spaces::space_r() {
        if mine(base) {
            work.push((base, c));
        }
        base += 1;
    }
    let b0 = base;
    base += spaces::space_a(a_len, &mut |i, c| {
        if mine(b0 + i) {
            work.push((b0 + i, c.to_vec()));
        }
    });
    let b1 = base;
    base += spaces::space_b(p.b_tokens, &mut |i, c| {
        if mine(b1 + i) {
            work.push((b1 + i, c.to_vec()));
        }
    });
    let b2 = base;
    base += spaces::space_s(p.s_k, 0, &mut |i, c| {
        if mine(b2 + i) {
            work.push((b2 + i, c.to_vec()));
        }
    });
    let b3 = base;
    base += spaces::space_w(p.w_full, &mut |i, c| {
        if mine(b3 + i) {
            work.push((b3 + i, c.to_vec()));
        }
    });
    let bl = base;
    base += spaces::space_l(0, 2, &mut |i, c| {
        if mine(bl + i) {
            work.push((bl + i, c.to_vec()));
        }
    });
    let bl3 = base;
    base += spaces::space_l3_reduced(&mut |i, c| {
        if mine(bl3 + i) {
            work.push((bl3 + i, c.to_vec()));
        }
    });
    let b4 = base;
    base += spaces::space_p(p.w_full, &mut |i, c| {
        if mine(b4 + i) {
            work.push((b4 + i, c.to_vec()));
        }
    });
    for c in spaces::space_t(false).into_iter().chain(spaces::space_q()) {
        if mine(base) {
            work.push((base, c));
        }
        base += 1;
    }
    for (_, c) in spaces::space_k() {
        if mine(base) {
            work.push((base, c));
        }
        base += 1;
    }
    let mut n = 1;
    while n <= p.nest_max {
        for c in [spaces::nest_open_close(n), spaces::nest_counted(n)] {
            if mine(base) {
                work.push((base, c));
            }
            base += 1;
        }
        n = if n < 8 { n + 1 } else { n * 2 };
    }
    work
}

fn fail(ctx: &mut WorkerCtx, what: &str, class: &str, w: Width, level: u32, code: &[u8], detail: String) {
    let text = String::from_utf8_lossy(code).to_string();
    let key = format!("C13|{}|{what}|{}|{level}|{text}", diff::profile(), w.bits());
    ctx.fail(
        J::obj()
            .set("property", "C13")
            .set("kind", "compile")
            .set("key", key)
            .set("class", class)
            .set("profile", diff::profile())
            .set("what", what)
            .set("width", w.bits())
            .set("level", level)
            .set("program", text)
            .set("observed", detail),
    );
}

// ---------------------------------------------------------------------------------------- total

fn total_program(ctx: &mut WorkerCtx, p: &Plan, code: &[u8]) {
    let text = std::str::from_utf8(code).unwrap();
    ctx.count("programs", 1);
    for &w in &p.widths {
        for level in [0u32, 1, 2, 3, 7] {
            for b in [Backend::IrInt, Backend::BcInt, Backend::BaseJit] {
                if level == 7 && b != Backend::IrInt {
                    continue;
                }
                ctx.count("evaluations", 1);
                match compile(b, w, level, text) {
                    Ok(_) => {}
                    Err(CompileErr::Panic(m)) => fail(ctx, &format!("create-{}", b.name()), "panic", w, level, code, m),
                    Err(e) => fail(ctx, &format!("create-{}", b.name()), "error", w, level, code, format!("{e:?}")),
                }
            }
        }
    }
    if code.iter().any(|&c| c == b'[') {
        ctx.distinct(fnv(code));
    }
}

// ---------------------------------------------------------------------------------------- det

pub fn digest(w: Width, level: u32, text: &str) -> Result<u64, String> {
    let mut h = Vec::new();
    h.extend_from_slice(ir_text(w, level, text).map_err(|e| format!("{e:?}"))?.as_bytes());
    for (regs, fuse) in [(2usize, true), (11usize, false), (12usize, false)] {
        let b = translate(w, level, text, regs, fuse, true).map_err(|e| format!("{e:?}"))?;
        h.extend_from_slice(b.text.as_bytes());
        h.extend_from_slice(format!("{:?}{:?}", b.insts, b.live).as_bytes());
    }
    let jit = compile(Backend::BaseJit, w, level, text).map_err(|e| format!("{e:?}"))?;
    for (l, s) in [(false, true), (true, true), (false, false)] {
        h.extend_from_slice(&jit.machine_code(l, s).unwrap());
    }
    Ok(fnv(&h))
}

fn det_program(ctx: &mut WorkerCtx, p: &Plan, idx: u64, code: &[u8], noise: &[Vec<u8>]) {
    let text = std::str::from_utf8(code).unwrap();
    ctx.count("programs", 1);
    // digests are expensive (seven artefacts, twice per process, two processes): the long statement-language
    // programs are digested at the first width and at levels 2 and 3 only
    let long = code.len() > 30 && ctx.tier == Tier::Quick;
    for (wi, &w) in p.widths.iter().enumerate() {
        for level in 0..4u32 {
            if long && (wi > 0 || level < 2) {
                continue;
            }
            ctx.count("evaluations", 2);
            let Ok(d1) = digest(w, level, text) else {
                ctx.count("digest_failed", 1);
                continue;
            };
            // unrelated compilations in between (history independence)
            for n in noise {
                let _ = compile(Backend::BcInt, w, (level + 1) % 4, std::str::from_utf8(n).unwrap());
            }
            let d2 = digest(w, level, text).unwrap_or(0);
            if d1 != d2 {
                fail(ctx, "same-process", "nondeterministic", w, level, code, format!("digest {d1:016x} then {d2:016x} in the same process"));
            }
            ctx.agree(idx << 8 | (wi as u64) << 4 | level as u64, d1);
        }
    }
    ctx.distinct(fnv(code));
}

// ---------------------------------------------------------------------------------------- reuse

fn reuse_program(ctx: &mut WorkerCtx, code: &[u8], prev: &Option<(Vec<u8>, Vec<hshim::exec::Compiled>)>) -> Option<Vec<hshim::exec::Compiled>> {
    let text = std::str::from_utf8(code).unwrap();
    let script = [1u8, 2, 255];
    let mut execs = Vec::new();
    ctx.count("programs", 1);
    for b in Backend::ALL {
        let Ok(c) = compile(b, Width::W8, 2, text) else { return None };
        execs.push(c);
    }
    let budget = 300;
    for (bi, c) in execs.iter().enumerate() {
        // baselines: each observation taken from a *fresh* executor that has done nothing else
        let fresh = |mode: Mode| -> Option<(hshim::exec::RunResult, Vec<hshim::env::Act>)> {
            compile(c.backend, Width::W8, 2, text).ok().map(|f| diff::run_logged(&f, mode, &script, 4096, Arm::default()))
        };
        let Some((l0, llog0)) = fresh(Mode::Limited(budget)) else { continue };
        let Some((z0, zlog0)) = fresh(Mode::Limited(0)) else { continue };
        // the unlimited entry is only used when the limited run finished (it has no budget)
        let exec0 = if l0.finished == Some(true) { fresh(Mode::Execute) } else { None };
        let mc0: Vec<Option<Vec<u8>>> = [(false, true), (true, true), (false, false)]
            .iter()
            .map(|&(l, s)| compile(c.backend, Width::W8, 2, text).ok().and_then(|f| f.machine_code(l, s)))
            .collect();
        // one executor, a history mixing every entry point and another executor in between
        let problems: std::cell::RefCell<Vec<String>> = std::cell::RefCell::new(Vec::new());
        let check = |what: &str, got: (hshim::exec::RunResult, Vec<hshim::env::Act>), want: &(hshim::exec::RunResult, Vec<hshim::env::Act>)| {
            if got.1 != want.1 || got.0.finished != want.0.finished || got.0.budget_left != want.0.budget_left {
                problems.borrow_mut().push(format!(
                    "{what}: {} / finished {:?} / budget left {} but a fresh executor gives {} / {:?} / {}",
                    diff::trace_str(&got.1),
                    got.0.finished,
                    got.0.budget_left,
                    diff::trace_str(&want.1),
                    want.0.finished,
                    want.0.budget_left
                ));
            }
        };
        let base_l = (l0.clone(), llog0.clone());
        let base_z = (z0.clone(), zlog0.clone());
        check("1st execute_limited", diff::run_logged(c, Mode::Limited(budget), &script, 4096, Arm::default()), &base_l);
        if let Some((_, pe)) = prev {
            let _ = diff::run_logged(&pe[bi], Mode::Limited(budget), &script, 4096, Arm::default());
        }
        if let Some(e0) = &exec0 {
            check("execute after execute_limited", diff::run_logged(c, Mode::Execute, &script, 4096, Arm::default()), e0);
        }
        check("execute_limited(0) after execute", diff::run_logged(c, Mode::Limited(0), &script, 4096, Arm::default()), &base_z);
        for (k, &(l, s)) in [(false, true), (true, true), (false, false)].iter().enumerate() {
            if c.machine_code(l, s) != mc0[k] {
                problems.borrow_mut().push(format!("print_mc({l},{s}) after executions differs from a fresh executor's"));
            }
        }
        check("execute_limited after print_mc", diff::run_logged(c, Mode::Limited(budget), &script, 4096, Arm::default()), &base_l);
        if let Some(e0) = &exec0 {
            check("execute at the end", diff::run_logged(c, Mode::Execute, &script, 4096, Arm::default()), e0);
        }
        ctx.count("evaluations", 8);
        ctx.count("executions", 8);
        let problems = problems.into_inner();
        if !problems.is_empty() {
            fail(ctx, &format!("reuse-{}", c.backend.name()), "differs", Width::W8, 2, code, problems.join(" | "));
        }
    }
    if code.iter().any(|&c| c == b'[' || c == b'.') {
        ctx.distinct(fnv(code));
    }
    Some(execs)
}

// ---------------------------------------------------------------------------------------- scale

pub fn scale_families() -> Vec<(&'static str, Box<dyn Fn(usize) -> Vec<u8>>)> {
    fn repeat(prefix: &str, block: &str, suffix: &str, n: usize) -> Vec<u8> {
        let mut v = prefix.as_bytes().to_vec();
        for _ in 0..n {
            v.extend_from_slice(block.as_bytes());
        }
        v.extend_from_slice(suffix.as_bytes());
        v
    }
    vec![
        ("nested-counted", Box::new(|n| spaces::nest_counted(n))),
        ("nested-empty", Box::new(|n| spaces::nest_open_close(n))),
        ("chained-copy", Box::new(|n| repeat(",", "[->+>+<<]>>[-<<+>>]<", ".", n))),
        ("chained-add-const", Box::new(|n| repeat(",>,<", "[->+<]>+++[-<+>]<", ".>.", n))),
        ("chained-double", Box::new(|n| repeat(",", "[->++<]>[-<+>]<", ".", n))),
        ("sequential-loops", Box::new(|n| repeat(",", "[-.]+", ".", n))),
        ("polynomial-tower", Box::new(|n| repeat(",>,>,<<", "[->[->+>+<<]>>[-<<+>>]<<<]>>[-<<+>>]<<", ".>.", n))),
        // multiply two cells and copy the product into both
        ("chained-product", Box::new(|n| repeat(",>,<", "[->[->+>+<<]>>[-<<+>>]<<<]>[-]>[-<+<+>>]<<", ".>.", n))),
        // square a cell n times inside a loop, printing it each time (the known-value chain doubles)
        ("repeated-square-in-loop", Box::new(|n| repeat(",[>[-]>[-]>[-]>[-]<<<<", "[->+>+<<]>[->[-<<+>>>+<]>[-<+>]<<]>[-]<<.", "]", n))),
        ("repeated-square", Box::new(|n| repeat(",", "[->+>+<<]>[->[-<<+>>>+<]>[-<+>]<<]>[-]<<.", "", n))),
        ("nested-moves", Box::new(|n| {
            let mut v = b",".to_vec();
            for _ in 0..n {
                v.extend_from_slice(b"[->+");
            }
            for _ in 0..n {
                v.extend_from_slice(b"<]");
            }
            v.push(b'.');
            v
        })),
    ]
}

const SCALE_CAP_SECS: u64 = 10;
const HUGE_TRIP_CAP_MS: u64 = 4000;
const SCALE_MEM_BYTES: u64 = 6 << 30;

/// One scaling family: sizes n = 1,2,..,8,12,18,.. up to `max_n`, in this process order. A create
/// must finish within the cap (isolated child, address space limited) and the bytecode size must
/// not grow faster than n^4 between consecutive sizes (exponential growth multiplies the size by
/// a constant per added block and fails this quickly). The family stops at its first failure.
fn scale_family(ctx: &mut WorkerCtx, fam: &str, gen: &dyn Fn(usize) -> Vec<u8>, max_n: usize) {
    for (w, level) in [(Width::W8, 2u32), (Width::W64, 3u32)] {
        let mut prev: Option<(usize, u64)> = None;
        let mut prev_time: Option<(usize, f64)> = None;
        let mut n = 1usize;
        while n <= max_n {
            let code = gen(n);
            let text = String::from_utf8(code.clone()).unwrap();
            ctx.count("evaluations", 1);
            ctx.beat(n as u64);
            let start = Instant::now();
            let r = isolated(SCALE_CAP_SECS * 1000, move || {
                unsafe {
                    let lim = libc::rlimit { rlim_cur: SCALE_MEM_BYTES, rlim_max: SCALE_MEM_BYTES };
                    libc::setrlimit(libc::RLIMIT_AS, &lim);
                    let fd = libc::open(c"/dev/null".as_ptr(), libc::O_WRONLY);
                    if fd >= 0 {
                        libc::dup2(fd, 2);
                    }
                }
                let mut sizes = Vec::new();
                for b in [Backend::IrInt, Backend::BcInt, Backend::BaseJit] {
                    match compile(b, w, level, &text) {
                        Ok(c) => {
                            let n = c.bytecode(false).map(|p| p.insts.len()).unwrap_or(0);
                            sizes.extend_from_slice(&(n as u64).to_le_bytes());
                        }
                        Err(e) => {
                            let mut v = vec![0xffu8; 8];
                            v.extend_from_slice(format!("{}: {e:?}", b.name()).as_bytes());
                            return v;
                        }
                    }
                }
                sizes
            });
            let secs = start.elapsed().as_secs_f64();
            ctx.maxstat("create_ms", (secs * 1000.0) as u64);
            let key_what = format!("scale-{fam}-{n}");
            let mut failed = true;
            if let (Some((pn, pms)), Iso::Done(_)) = (prev_time, &r) {
                let allowed = (pms.max(50.0)) * (n as f64 / pn as f64).powi(4) + 200.0;
                let mut ms = secs * 1000.0;
                if ms > allowed {
                    // a loaded machine must not raise this alarm: measure again and keep the faster run
                    let t2 = String::from_utf8(code.clone()).unwrap();
                    let again = Instant::now();
                    let _ = isolated(SCALE_CAP_SECS * 1000, move || {
                        for b in [Backend::IrInt, Backend::BcInt, Backend::BaseJit] {
                            let _ = compile(b, w, level, &t2);
                        }
                        Vec::new()
                    });
                    ms = ms.min(again.elapsed().as_secs_f64() * 1000.0);
                }
                if ms > allowed {
                    fail(ctx, &format!("scale-{fam}-{n}"), "time-blowup", w, level, &code,
                        format!("create took {:.0} ms at n={n} after {:.0} ms at n={pn}: faster than n^4 (source {} characters)", secs * 1000.0, pms, code.len()));
                    break;
                }
            }
            prev_time = Some((n, secs * 1000.0));
            match r {
                Iso::Done(b) if b.len() == 24 => {
                    let insts = u64::from_le_bytes(b[16..24].try_into().unwrap());
                    ctx.maxstat("bytecode_insts", insts);
                    failed = false;
                    if let Some((pn, psize)) = prev {
                        let allowed = (psize.max(64) as f64) * (n as f64 / pn as f64).powi(4) + 64.0;
                        if insts as f64 > allowed {
                            fail(ctx, &key_what, "size-blowup", w, level, &code,
                                format!("{insts} bytecode instructions at n={n} after {psize} at n={pn}: faster than n^4 (source {} characters)", code.len()));
                            failed = true;
                        }
                    }
                    prev = Some((n, insts));
                }
                Iso::Done(b) => fail(ctx, &key_what, "panic", w, level, &code, String::from_utf8_lossy(&b[8.min(b.len())..]).to_string()),
                Iso::Timeout => fail(ctx, &key_what, "time-blowup", w, level, &code, format!("create did not finish within {SCALE_CAP_SECS} s for a source of {} characters", code.len())),
                Iso::Signal(s) if s == libc::SIGABRT => fail(ctx, &key_what, "memory-blowup", w, level, &code, format!("create needed more than {} GiB for a source of {} characters", SCALE_MEM_BYTES >> 30, code.len())),
                Iso::Signal(s) => fail(ctx, &key_what, "crash", w, level, &code, format!("signal {s}")),
                Iso::Exit(e) => fail(ctx, &key_what, "crash", w, level, &code, format!("exit {e}")),
            }
            ctx.distinct(fnv(&code));
            if failed {
                break;
            }
            n = if n < 8 { n + 1 } else { n + n / 2 };
        }
    }
}

/// Huge constant trip counts (family H): a chunk of programs is built in one isolated child at 32 and 64
/// bit, levels 1..3, all compiling executors; a chunk that does not finish inside the cap is re-run one
/// program at a time to name the program. Stops after the first failure in a worker.
fn huge_trip_chunk(ctx: &mut WorkerCtx, progs: &[Vec<u8>], failures: &mut u32) {
    let build = |list: Vec<Vec<u8>>| {
        isolated(HUGE_TRIP_CAP_MS, move || {
            unsafe {
                let lim = libc::rlimit { rlim_cur: SCALE_MEM_BYTES, rlim_max: SCALE_MEM_BYTES };
                libc::setrlimit(libc::RLIMIT_AS, &lim);
            }
            for code in &list {
                let text = std::str::from_utf8(code).unwrap();
                for w in [Width::W32, Width::W64] {
                    for level in 1..=3u32 {
                        for b in [Backend::IrInt, Backend::BcInt, Backend::BaseJit] {
                            if let Err(e) = compile(b, w, level, text) {
                                let mut v = vec![0xffu8];
                                v.extend_from_slice(format!("{}\t{}\t{level}\t{text}\t{e:?}", b.name(), w.bits()).as_bytes());
                                return v;
                            }
                        }
                    }
                }
            }
            vec![0]
        })
    };
    ctx.count("evaluations", progs.len() as u64 * 18);
    ctx.count("huge_trip_programs", progs.len() as u64);
    for c in progs {
        ctx.distinct(fnv(c) ^ 0x4855_4745);
    }
    if let Iso::Done(v) = build(progs.to_vec()) {
        if v == [0] {
            return;
        }
    }
    for code in progs {
        if *failures >= 1 {
            return;
        }
        let r = build(vec![code.clone()]);
        let (class, detail) = match r {
            Iso::Done(v) if v == [0] => continue,
            Iso::Done(v) => ("panic", String::from_utf8_lossy(&v[1.min(v.len())..]).to_string()),
            Iso::Timeout => ("time-blowup", format!("building the executors at 32 and 64 bit, levels 1..3, did not finish within {} s for a source of {} characters (a chunk of 16 such programs takes milliseconds)", HUGE_TRIP_CAP_MS / 1000, code.len())),
            Iso::Signal(s) if s == libc::SIGABRT => ("memory-blowup", format!("create needed more than {} GiB", SCALE_MEM_BYTES >> 30)),
            Iso::Signal(s) => ("crash", format!("signal {s}")),
            Iso::Exit(e) => ("crash", format!("exit {e}")),
        };
        *failures += 1;
        fail(ctx, "huge-trip", class, Width::W64, 3, code, detail);
    }
}

// ---------------------------------------------------------------------------------------- workers

pub fn worker(ctx: &mut WorkerCtx) {
    let p = plan(ctx.tier);
    let check = ctx.check.clone();
    if check.starts_with("C13.total") {
        let work = programs(ctx, &p, p.a_len, false);
        let n = work.len();
        for (k, (idx, code)) in work.into_iter().enumerate() {
            ctx.mark(idx, 0, &code[..code.len().min(4000)]);
            total_program(ctx, &p, &code);
            if k == n / 2 {
                ctx.sample(|| J::obj().set("part", "total").set("program", String::from_utf8_lossy(&code[..code.len().min(200)]).to_string()));
            }
        }
    } else if check == "C13.det" {
        // digests are expensive (seven artefacts per configuration, twice per process, two processes):
        // one statement level less than the totality part
        let pd = plan(ctx.tier);
        let work = programs(ctx, &pd, p.det_a_len, true);
        let noise: Vec<Vec<u8>> = vec![b",[->+>+<<]>>[-<<+>>]<.".to_vec(), b"+[[->+<]>-]".to_vec(), b"-[.-]".to_vec()];
        let n = work.len();
        for (k, (idx, code)) in work.into_iter().enumerate() {
            if code.len() > 600 {
                continue;
            }
            ctx.mark(idx, 1, &code);
            det_program(ctx, &p, idx, &code, &noise);
            if ctx.only.is_some() {
                println!("P\t{idx}\t{}", String::from_utf8_lossy(&code));
            }
            if k == n / 2 {
                ctx.sample(|| J::obj().set("part", "determinism").set("program", String::from_utf8_lossy(&code[..code.len().min(200)]).to_string()).set("digest_of", "IR text, bytecode (2,fuse)/(11,nofuse)/(12,nofuse), machine code x3"));
            }
        }
    } else if check == "C13.reuse" {
        let mut p2 = plan(ctx.tier);
        p2.b_tokens = 3;
        p2.s_k = 1;
        p2.nest_max = 4;
        let work = programs(ctx, &p2, p.det_a_len, false);
        let mut prev: Option<(Vec<u8>, Vec<hshim::exec::Compiled>)> = None;
        for (idx, code) in work {
            if code.len() > 300 {
                continue;
            }
            ctx.mark(idx, 2, &code);
            if let Some(e) = reuse_program(ctx, &code, &prev) {
                prev = Some((code, e));
            }
        }
    } else {
        // scale: one family per case
        let fams = scale_families();
        for (idx, (name, gen)) in fams.iter().enumerate() {
            if ctx.owns(idx as u64) {
                ctx.mark(idx as u64, 3, name.as_bytes());
                scale_family(ctx, name, gen.as_ref(), p.scale_max);
                ctx.sample(|| J::obj().set("part", "scale").set("family", *name).set("n_max", p.scale_max).set("program_n2", String::from_utf8_lossy(&gen(2)).to_string()));
            }
        }
        // huge constant trip counts, in chunks of 16 programs
        let h = spaces::space_h();
        let mut failures = 0u32;
        for (k, chunk) in h.chunks(16).enumerate() {
            let idx = (fams.len() + k) as u64;
            if ctx.owns(idx) && failures < 1 {
                ctx.mark(idx, 3, &chunk[0]);
                huge_trip_chunk(ctx, chunk, &mut failures);
            }
        }
    }
}

pub fn replay_case(j: &J) -> (bool, String) {
    let tier = Tier::parse(j.str("tier").unwrap_or("quick")).unwrap_or(Tier::Quick);
    let check = j.str("check").unwrap_or("C13.total.release").to_string();
    let what = j.str("what").unwrap_or("").to_string();
    let code = j.str("program").unwrap_or("").as_bytes().to_vec();
    let mut ctx = crate::framework::collector_ctx(&check, tier);
    let p = plan(tier);
    if what.starts_with("scale-") {
        let mut it = what.rsplitn(2, '-');
        let n: usize = it.next().and_then(|x| x.parse().ok()).unwrap_or(1);
        let fam = it.next().unwrap_or("").trim_start_matches("scale-").to_string();
        for (name, gen) in scale_families() {
            if name == fam {
                scale_family(&mut ctx, name, gen.as_ref(), n);
            }
        }
    } else if what == "huge-trip" {
        let mut failures = 0;
        huge_trip_chunk(&mut ctx, &[code.clone()], &mut failures);
    } else if what.starts_with("reuse-") {
        reuse_program(&mut ctx, &code, &None);
    } else if what == "cross-process" {
        // recompute the digest in two fresh processes
        let w = Width::from_bits(j.int("width").unwrap_or(8) as u32).unwrap_or(Width::W8);
        let level = j.int("level").unwrap_or(0) as u32;
        let exe = std::env::current_exe().unwrap();
        let mut ds = Vec::new();
        for _ in 0..12 {
            let o = std::process::Command::new(&exe).args(["digest", &w.bits().to_string(), &level.to_string(), j.str("program").unwrap_or("")]).output();
            ds.push(o.map(|o| String::from_utf8_lossy(&o.stdout).trim().to_string()).unwrap_or_default());
        }
        let differ = ds.iter().any(|d| *d != ds[0]);
        return (differ, format!("digests {ds:?}"));
    } else if what == "same-process" {
        det_program(&mut ctx, &p, 0, &code, &[b"+[[->+<]>-]".to_vec()]);
    } else {
        let mut p2 = plan(tier);
        p2.widths = Width::ALL.to_vec();
        total_program(&mut ctx, &p2, &code);
    }
    let key = j.str("key").unwrap_or("");
    let got = ctx.collected.unwrap_or_default();
    match got.iter().find(|g| g.str("key") == Some(key)) {
        Some(g) => (g.str("class") == j.str("class"), g.str("observed").unwrap_or("").to_string()),
        None => (false, format!("passes now ({} other failures)", got.len())),
    }
}

pub fn info(tier: Tier) -> CheckInfo {
    let p = plan(tier);
    CheckInfo {
        id: "C13",
        level: "model_checking",
        rule: format!(
            "Totality: Executor::create of the IR interpreter, bytecode interpreter and JIT for every program of A(len<={}), B(<={} tokens), \
             S(1,{}), W, K, the regression corpus and the nesting families up to depth {}, widths {:?}, levels 0..3 (and 7 for the IR), in \
             both build profiles (release; release + debug assertions + overflow checks): no panic, no error. Determinism: for A(len<={}) \
             and the other spaces (in the quick tier programs longer than 30 characters at the first width and levels 2,3 only) a digest of (printed IR, printed and structural bytecode for the settings (2,fuse), (11,no fuse), \
             (12,no fuse), machine code for (unlimited,checked), (limited,checked), (unlimited,unchecked)) per (program,width,level) is \
             computed by two different worker processes (different std hash seeds, ASLR disabled so embedded runtime addresses agree) \
             and twice inside each with unrelated programs compiled in between; all observations must agree. Reuse: for every program \
             of the small spaces and each backend one executor runs the history execute_limited(300), (another executor), execute, \
             execute_limited(0), print_mc x3, execute_limited(300), execute on fresh contexts; log, finished flag, remaining budget and \
             machine code must equal those of fresh executors that did nothing else (differential oracle, no expected values). Scaling: {} families (nested counted loops, chained \
             copy / add / double / product idioms, polynomial towers, nested moves) for n up to {}: every create finishes within {} s in \
             an isolated process with a 6 GiB address-space limit and the bytecode size grows no faster than n^4 between consecutive sizes. Huge constant trip counts (family H: counter -1, every \
             body of <= 3 additive statements over two cells, 2 prefixes, 2 loop shapes): chunks of 16 programs are built at 32 and 64 bit, \
             levels 1..3, three executors, in an isolated process with a 4 s cap (they are never run). evaluations = create calls / digests / \
             executions; distinct = distinct programs with a loop.",
            p.a_len, p.b_tokens, p.s_k, p.nest_max, p.widths.iter().map(|w| w.bits()).collect::<Vec<_>>(), p.det_a_len, scale_families().len(), p.scale_max, SCALE_CAP_SECS
        ),
        assumptions: vec![
            "'no super-polynomial blow-up' is decided only up to the stated family sizes (exhaustive: false for that clause)".into(),
            "hash-seed independence is observed across two processes per case, not proved for all seeds".into(),
        ],
        bounds: J::obj().set("A_max_len", p.a_len).set("det_A_max_len", p.det_a_len).set("nest_max", p.nest_max).set("scale_max", p.scale_max),
        exhaustive: true,
        hang_secs: 120,
    }
}
