//! C08: I/O failures stop the program cleanly and identically on every backend.
//!
//! Fault enumeration: for every program and every position i < F of its canonical action
//! sequence, action i is made the first failing one (outputs fail as Ok(0) and as Err, inputs as
//! Err); additionally the input source is absent altogether. One run per fault position.

use hshim::env::{Act, Env, OutFail};
use hshim::exec::{compile, Backend, Mode, Width};
use hshim::galloc::Arm;

use crate::diff::{self, failure_json, Failure, IsoOutcome};
use crate::framework::{fnv, CheckInfo, Tier, WorkerCtx};
use crate::json::J;
use crate::refbf::{self, Verdict};
use crate::spaces;

struct Plan {
    a_len: usize,
    s_k: usize,
    depth: usize,
    step_cap: u64,
    max_fault_pos: usize,
    widths: Vec<Width>,
}

fn plan(tier: Tier) -> Plan {
    match tier {
        Tier::Quick => Plan { a_len: 6, s_k: 1, depth: 1, step_cap: 3_000, max_fault_pos: 8, widths: vec![Width::W8, Width::W64] },
        Tier::Thorough => Plan { a_len: 7, s_k: 2, depth: 2, step_cap: 20_000, max_fault_pos: 12, widths: Width::ALL.to_vec() },
    }
}

fn levels(b: Backend) -> Vec<u32> {
    if b == Backend::Inplace {
        vec![0]
    } else {
        vec![0, 1, 2, 3]
    }
}

#[derive(Clone, Copy, PartialEq, Eq, Debug)]
enum Fault {
    At(usize, OutFail),
    InputAbsent,
}

pub fn worker(ctx: &mut WorkerCtx) {
    let p = plan(ctx.tier);
    let mut work: Vec<(u64, Vec<u8>)> = Vec::new();
    let mut base = 0u64;
    let b0 = base;
    base += spaces::space_a(p.a_len, &mut |i, c| {
        if ctx.owns(b0 + i) {
            work.push((b0 + i, c.to_vec()));
        }
    });
    let b1 = base;
    base += spaces::space_s(p.s_k, 0, &mut |i, c| {
        if ctx.owns(b1 + i) {
            work.push((b1 + i, c.to_vec()));
        }
    });
    // I/O, stores and moves around shifting at-most-once loops; loops around scans; idiom tokens
    let bi = base;
    base += spaces::space_i(3, &mut |i, c| {
        if ctx.owns(bi + i) {
            work.push((bi + i, c.to_vec()));
        }
    });
    let bn = base;
    base += spaces::space_n(false, 3, &mut |i, c| {
        if ctx.owns(bn + i) {
            work.push((bn + i, c.to_vec()));
        }
    });
    let bb = base;
    base += spaces::space_b(4, &mut |i, c| {
        if ctx.owns(bb + i) {
            work.push((bb + i, c.to_vec()));
        }
    });
    for (_, c) in spaces::space_k() {
        if ctx.owns(base) {
            work.push((base, c));
        }
        base += 1;
    }
    for (idx, code) in work {
        ctx.mark(idx, 0, &code);
        judge_program(ctx, &p, &code);
    }
}

pub fn replay_program(ctx: &mut WorkerCtx, code: &[u8]) {
    let p = plan(ctx.tier);
    judge_program(ctx, &p, code);
}

fn judge_program(ctx: &mut WorkerCtx, p: &Plan, code: &[u8]) {
    let code = code.to_vec();
    {
        ctx.count("programs", 1);
        let text = std::str::from_utf8(&code).unwrap();
        for &w in &p.widths {
            // any canonical prefix is usable: the run stops at the fault
            let runs = diff::explore_env(&code, w, p.depth, p.step_cap, true);
            ctx.count("env_nodes", runs.len() as u64);
            let usable: Vec<_> = runs.into_iter().filter(|(_, c)| !c.trace.is_empty() && c.verdict != Verdict::Stuck).collect();
            if usable.is_empty() {
                continue;
            }
            for backend in Backend::ALL {
                for level in levels(backend) {
                    ctx.beat((backend as u64) << 40 | (w.bits() as u64) << 32 | level as u64);
                    let Ok(comp) = compile(backend, w, level, text) else {
                        ctx.count("create_failed", 1);
                        continue;
                    };
                    for (script, canon) in &usable {
                        let n = canon.trace.len().min(p.max_fault_pos);
                        let mut faults: Vec<Fault> = Vec::new();
                        for i in 0..n {
                            match canon.trace[i] {
                                Act::Out(_) => {
                                    faults.push(Fault::At(i, OutFail::Zero));
                                    faults.push(Fault::At(i, OutFail::Err));
                                    faults.push(Fault::At(i, OutFail::Interrupted));
                                }
                                Act::In => {
                                    faults.push(Fault::At(i, OutFail::Err));
                                    faults.push(Fault::At(i, OutFail::Interrupted));
                                }
                            }
                        }
                        if script.is_empty() && canon.trace.iter().take(64).any(|a| *a == Act::In) {
                            faults.push(Fault::InputAbsent);
                        }
                        for fault in faults {
                            ctx.count("executions", 1);
                            ctx.distinct(fnv(&code) ^ fnv(script).rotate_left(9) ^ ((w.bits() as u64) << 52) ^ fnv(format!("{fault:?}").as_bytes()).rotate_left(29));
                            let (expected, fail_at, present): (Vec<Act>, Option<(usize, OutFail)>, bool) = match fault {
                                Fault::At(i, k) => (canon.trace[..=i].to_vec(), Some((i, k)), true),
                                Fault::InputAbsent => {
                                    let first_in = canon.trace.iter().position(|a| *a == Act::In).unwrap();
                                    (canon.trace[..first_in].to_vec(), None, false)
                                }
                            };
                            ctx.count("actions_compared", expected.len() as u64);
                            let cap = expected.len() + 6;
                            let mode_name = match fault {
                                Fault::At(i, OutFail::Zero) => format!("execute:fail@{i}:zero"),
                                Fault::At(i, OutFail::Err) => format!("execute:fail@{i}:err"),
                                Fault::At(i, OutFail::Interrupted) => format!("execute:fail@{i}:interrupted"),
                                Fault::InputAbsent => "execute:noinput".to_string(),
                            };
                            let run = |mode: Mode| {
                                let env = Env::new(script, cap);
                                if let Some((at, k)) = fail_at {
                                    env.borrow_mut().fail_at = Some(at);
                                    env.borrow_mut().out_fail = k;
                                }
                                let r = comp.run(mode, &env, present, true, Arm::default());
                                let log = std::mem::take(&mut env.borrow_mut().log);
                                (r, log)
                            };
                            // limited twin as a screen so that a backend that fails to stop stays cheap
                            let budget = diff::screen_budget(canon);
                            let (r0, log0) = run(Mode::Limited(budget));
                            // (what execute_limited reports after an I/O failure differs between backends and is not specified)
                            let outcome = if r0.panicked.is_none() && log0 == expected {
                                let (r, log) = run(Mode::Execute);
                                IsoOutcome::Ran(diff::IsoRun { finished: None, panicked: r.panicked.or(r.err.map(|e| format!("returned Err {e:?}"))), canary_bad: 0, log })
                            } else if !diff::may_confirm_hang() {
                                // enough wall-clock confirmations in this worker: the limited twin is the evidence
                                IsoOutcome::Ran(diff::IsoRun { finished: None, panicked: r0.panicked.clone(), canary_bad: 0, log: log0.clone() })
                            } else if !present {
                                // isolated run without an input object
                                match crate::framework::isolated(1500, || {
                                    let (r, log) = run(Mode::Execute);
                                    let mut v = vec![r.panicked.is_some() as u8];
                                    for a in &log {
                                        match a {
                                            Act::In => v.extend_from_slice(&[1, 0]),
                                            Act::Out(b) => v.extend_from_slice(&[2, *b]),
                                        }
                                    }
                                    v
                                }) {
                                    crate::framework::Iso::Done(v) if !v.is_empty() => {
                                        let mut log = Vec::new();
                                        let mut q = 1;
                                        while q + 1 < v.len() {
                                            log.push(if v[q] == 1 { Act::In } else { Act::Out(v[q + 1]) });
                                            q += 2;
                                        }
                                        IsoOutcome::Ran(diff::IsoRun { finished: None, panicked: if v[0] != 0 { Some("panic".into()) } else { None }, canary_bad: 0, log })
                                    }
                                    crate::framework::Iso::Timeout => IsoOutcome::Hang,
                                    crate::framework::Iso::Signal(s) => IsoOutcome::Crash(format!("signal {s}")),
                                    _ => IsoOutcome::Crash("child failed".into()),
                                }
                            } else {
                                diff::run_isolated(&comp, Mode::Execute, script, cap, fail_at, true, Arm::default(), 1500)
                            };
                            let mk = |class: &str, log: &[Act], detail: String, first: usize| Failure {
                                class: class.into(),
                                mode: mode_name.clone(),
                                observed: diff::trace_str(log),
                                expected: diff::trace_str(&expected),
                                first_diff: first,
                                detail,
                            };
                            match outcome {
                                IsoOutcome::Ran(x) => {
                                    if let Some(m) = x.panicked {
                                        ctx.fail(failure_json("C08", backend, w, level, &code, script, &mk("panic", &x.log, m, 0)));
                                    } else if let Some((cl, i)) = diff::classify(&x.log, &expected) {
                                        let d = if cl == "extra" {
                                            "events happen after the failing operation".to_string()
                                        } else {
                                            "events before the failing operation differ from the canonical sequence".to_string()
                                        };
                                        ctx.fail(failure_json("C08", backend, w, level, &code, script, &mk(cl, &x.log, d, i)));
                                    }
                                }
                                IsoOutcome::Hang => {
                                    ctx.fail(failure_json("C08", backend, w, level, &code, script,
                                        &mk("hang", &log0, "did not return after the failing operation (limited twin log shown)".into(), 0)));
                                }
                                IsoOutcome::Crash(s) => {
                                    ctx.fail(failure_json("C08", backend, w, level, &code, script, &mk("crash", &[], s, 0)));
                                }
                            }
                        }
                    }
                }
            }
            ctx.sample(|| {
                let (s, c) = &usable[usable.len() - 1];
                J::obj()
                    .set("program", text)
                    .set("width", w.bits())
                    .set("script", diff::script_hex(s))
                    .set("canonical_prefix", diff::trace_str(&c.trace[..c.trace.len().min(12)]))
                    .set("fault_positions", (0..c.trace.len().min(p.max_fault_pos) as u64).collect::<Vec<_>>())
            });
        }
    }
    let _ = refbf::bracket_table;
}

pub fn info(tier: Tier) -> CheckInfo {
    let p = plan(tier);
    CheckInfo {
        id: "C08",
        level: "fault_enumeration",
        rule: format!(
            "Complete fault space up to the bound: every program of A(len<={}), S(1,{}), I(3) (loops around shifting at-most-once loops with I/O), N(3) (loops around scans), B(4) (idiom tokens) and K, every width, input choice tree depth {}, \
             all four backends, levels 0..3; for each canonical action index i < {} one run in which action i is the first failing one \
             (an output refused with Ok(0), with Err, with Err(Interrupted) - the kind io::Write::write_all retries; an input answered with Err or Err(Interrupted)) plus one run with no input object \
             at all. Oracle: the log equals the canonical prefix up to and including the failing attempt, nothing is logged after it, \
             execute returns Ok without panic. A case is non-trivial by construction (it has at least one I/O action); distinct = \
             distinct (program,width,script,fault).",
            p.a_len, p.s_k, p.depth, p.max_fault_pos
        ),
        assumptions: vec![
            "after the first failing action every later action would fail as well (sticky fault)".into(),
            "the optional LLVM backend is not built in this sandbox and is excluded".into(),
        ],
        bounds: J::obj().set("A_max_len", p.a_len).set("S_max_statements", p.s_k).set("input_depth", p.depth).set("max_fault_position", p.max_fault_pos),
        exhaustive: true,
        hang_secs: 30,
    }
}
