//! C09: the tape API is an unbounded zero-initialised array under any call history.
//!
//! Explicit-state breadth-first search over the real `runtime::Memory<C>`. A state is what the
//! public API lets one observe: the accessible interval (found by probing `check`) and the
//! contents, both relative to the pointer. That determines all futures (size = hi-lo, offset =
//! -lo, contents), so deduplicating on it is sound. States are rebuilt by replaying their
//! shortest history on a fresh object; the map model is checked after the last call.

use std::collections::{BTreeMap, HashMap};

use hpbf::runtime::Memory;
use hpbf::CellType;
use hshim::galloc::{self, Arm};

use crate::framework::{fnv, CheckInfo, Tier, WorkerCtx};
use crate::json::J;

#[derive(Clone, Copy, PartialEq, Eq, Debug, Hash)]
pub enum Op {
    Mov(isize),
    Write(isize, u8),
    Read(isize),
    Access(isize, isize),
    Check(isize),
    PtrRound(isize),
}

const OFFS: [isize; 9] = [0, 1, -1, 3, -3, 40, -40, 5000, -5000];

pub fn alphabet() -> Vec<Op> {
    let mut v = Vec::new();
    for m in [1, -1, 7, -7, 1000, -1000] {
        v.push(Op::Mov(m));
    }
    for o in OFFS {
        for val in [1u8, 2] {
            v.push(Op::Write(o, val));
        }
    }
    for (a, b) in [(0, 1), (-2, 3), (-50, -40), (40, 50), (-30, 30), (-5000, 5000)] {
        v.push(Op::Access(a, b));
    }
    for o in OFFS {
        v.push(Op::Read(o));
    }
    for o in OFFS {
        v.push(Op::Check(o));
    }
    for k in [1, -1, 9, -9] {
        v.push(Op::PtrRound(k));
    }
    v
}

fn op_str(o: &Op) -> String {
    match o {
        Op::Mov(m) => format!("mov({m})"),
        Op::Write(o, v) => format!("write({o},{v})"),
        Op::Read(o) => format!("read({o})"),
        Op::Access(a, b) => format!("make_accessible({a},{b})"),
        Op::Check(o) => format!("check({o})"),
        Op::PtrRound(k) => format!("set_current_ptr(current_ptr()+{k})"),
    }
}

pub fn parse_op(s: &str) -> Option<Op> {
    let (name, rest) = s.split_once('(')?;
    let args: Vec<isize> = rest.trim_end_matches(')').replace("current_ptr()+", "").split(',').filter_map(|x| x.trim().parse().ok()).collect();
    Some(match name {
        "mov" => Op::Mov(*args.first()?),
        "write" => Op::Write(args[0], args[1] as u8),
        "read" => Op::Read(args[0]),
        "make_accessible" => Op::Access(args[0], args[1]),
        "check" => Op::Check(args[0]),
        "set_current_ptr" => Op::PtrRound(*args.last()?),
        _ => return None,
    })
}

/// The reference: a map from absolute logical position to value, plus the logical pointer and the
/// union of ranges that had to become accessible.
#[derive(Clone, Default)]
struct Model {
    cells: BTreeMap<i64, u64>,
    ptr: i64,
    /// positions that were explicitly made accessible or written (must stay accessible)
    must: Vec<(i64, i64)>,
}

#[derive(Clone, PartialEq, Eq, Hash, Debug)]
pub struct Obs {
    lo: i64,
    hi: i64,
    cells: Vec<(i64, u64)>,
}

struct Impl<C: CellType> {
    mem: Memory<C>,
    arm: Arm,
}

impl<C: CellType> Impl<C> {
    fn g<R>(&mut self, f: impl FnOnce(&mut Memory<C>) -> R) -> R {
        galloc::arm(self.arm);
        let r = f(&mut self.mem);
        galloc::disarm();
        r
    }
    fn apply(&mut self, op: &Op) -> Option<u64> {
        match *op {
            Op::Mov(m) => {
                self.g(|x| x.mov(m));
                None
            }
            Op::Write(o, v) => {
                self.g(|x| x.write(o, C::from_u64(v as u64)));
                None
            }
            Op::Read(o) => Some(self.g(|x| x.read(o)).into_u64()),
            Op::Access(a, b) => {
                self.g(|x| x.make_accessible(a, b));
                None
            }
            Op::Check(o) => Some(self.g(|x| x.check(o)) as u64),
            Op::PtrRound(k) => {
                self.g(|x| {
                    let p = x.current_ptr();
                    x.set_current_ptr(p.wrapping_offset(k));
                });
                None
            }
        }
    }
    fn check_abs(&mut self, model_ptr: i64, abs: i64) -> bool {
        let rel = (abs - model_ptr) as isize;
        self.mem.check(rel)
    }
    /// Accessible interval in absolute coordinates, found from a known accessible point by
    /// exponential + binary probing (contiguity is verified separately on the probe set).
    fn interval(&mut self, model_ptr: i64, seed: Option<i64>) -> Option<(i64, i64)> {
        let s = seed?;
        if !self.check_abs(model_ptr, s) {
            return None;
        }
        let mut step = 1i64;
        let mut good = s;
        let mut bad;
        loop {
            let t = good + step;
            if self.check_abs(model_ptr, t) {
                good = t;
                step *= 2;
            } else {
                bad = t;
                break;
            }
        }
        while bad - good > 1 {
            let m = good + (bad - good) / 2;
            if self.check_abs(model_ptr, m) {
                good = m;
            } else {
                bad = m;
            }
        }
        let hi = bad;
        let mut step = 1i64;
        let mut good = s;
        let mut bad;
        loop {
            let t = good - step;
            if self.check_abs(model_ptr, t) {
                good = t;
                step *= 2;
            } else {
                bad = t;
                break;
            }
        }
        while good - bad > 1 {
            let m = bad + (good - bad) / 2;
            if self.check_abs(model_ptr, m) {
                good = m;
            } else {
                bad = m;
            }
        }
        Some((good, hi))
    }
}

fn model_apply(m: &mut Model, op: &Op) {
    match *op {
        Op::Mov(k) | Op::PtrRound(k) => m.ptr += k as i64,
        Op::Write(o, v) => {
            m.cells.insert(m.ptr + o as i64, v as u64);
            m.must.push((m.ptr + o as i64, m.ptr + o as i64 + 1));
        }
        Op::Access(a, b) => m.must.push((m.ptr + a as i64, m.ptr + b as i64)),
        Op::Read(_) | Op::Check(_) => {}
    }
}

fn probe_points(m: &Model) -> Vec<i64> {
    let mut v = Vec::new();
    for o in OFFS {
        v.push(m.ptr + o as i64);
    }
    for &(a, b) in &m.must {
        v.extend_from_slice(&[a - 1, a, b - 1, b]);
    }
    for (&k, _) in &m.cells {
        v.push(k);
    }
    v.sort();
    v.dedup();
    v
}

/// Replay `hist` on a fresh tape; check the model on the last call. Returns the observable state.
fn replay<C: CellType>(hist: &[Op], arm: Arm, errors: &mut Vec<String>) -> Obs {
    let mut im = Impl::<C> { mem: Memory::new(), arm };
    let mut m = Model::default();
    let n = hist.len();
    let mut before: Option<(Option<(i64, i64)>, Vec<(i64, bool)>)> = None;
    for (i, op) in hist.iter().enumerate() {
        let last = i + 1 == n;
        if last {
            // observe before the call
            let seed = m.must.first().map(|r| r.0);
            let iv = im.interval(m.ptr, seed);
            let mut pts = probe_points(&m);
            let mut m2 = m.clone();
            model_apply(&mut m2, op);
            pts.extend(probe_points(&m2));
            pts.sort();
            pts.dedup();
            let obs: Vec<(i64, bool)> = pts.iter().map(|&p| (p, im.check_abs(m.ptr, p))).collect();
            before = Some((iv, obs));
        }
        let r = im.apply(op);
        if last {
            match *op {
                Op::Read(o) => {
                    let want = m.cells.get(&(m.ptr + o as i64)).copied().unwrap_or(0);
                    if r != Some(want) {
                        errors.push(format!("read({o}) returned {:?}, the model holds {want}", r));
                    }
                }
                Op::Check(_) => {}
                _ => {}
            }
        }
        model_apply(&mut m, op);
        if last {
            let (iv0, pts0) = before.take().unwrap();
            let seed = m.must.first().map(|r| r.0);
            let iv1 = im.interval(m.ptr, seed);
            // reads / checks / moves never allocate; nothing ever shrinks
            let allocating = matches!(op, Op::Write(..) | Op::Access(..));
            match (iv0, iv1) {
                (Some(a), Some(b)) => {
                    if b.0 > a.0 || b.1 < a.1 {
                        errors.push(format!("accessible interval shrank from [{},{}) to [{},{})", a.0, a.1, b.0, b.1));
                    }
                    if !allocating && a != b {
                        errors.push(format!("{} changed the accessible interval from [{},{}) to [{},{})", op_str(op), a.0, a.1, b.0, b.1));
                    }
                }
                (Some(a), None) => errors.push(format!("accessible interval [{},{}) vanished", a.0, a.1)),
                (None, Some(_)) if !allocating => errors.push(format!("{} allocated", op_str(op))),
                _ => {}
            }
            // every point consistent with the interval (contiguity) and monotone
            for &(p, was) in &pts0 {
                let now = im.check_abs(m.ptr, p);
                if was && !now {
                    errors.push(format!("cell {p} was accessible before {} and is not afterwards", op_str(op)));
                }
                if !allocating && was != now {
                    errors.push(format!("{} changed accessibility of cell {p}", op_str(op)));
                }
                if let Some((lo, hi)) = iv1 {
                    if now != (p >= lo && p < hi) {
                        errors.push(format!("accessible set is not the contiguous interval [{lo},{hi}): cell {p} -> {now}"));
                    }
                } else if now {
                    errors.push(format!("cell {p} accessible although nothing was ever made accessible"));
                }
            }
            // requested ranges are accessible afterwards
            for &(a, b) in &m.must {
                if b > a {
                    for p in [a, a + (b - a) / 2, b - 1] {
                        if !im.check_abs(m.ptr, p) {
                            errors.push(format!("cell {p} of the requested range [{a},{b}) is not accessible"));
                        }
                    }
                }
            }
            // contents: every written cell and the probe points read back what the model holds
            let mut pts = probe_points(&m);
            pts.extend(pts0.iter().map(|x| x.0));
            pts.sort();
            pts.dedup();
            for p in pts {
                let want = m.cells.get(&p).copied().unwrap_or(0);
                let got = im.mem.read((p - m.ptr) as isize).into_u64();
                if got != want {
                    errors.push(format!("cell {p} reads {got} but the model holds {want} after {}", op_str(op)));
                }
            }
            // check(o) agrees with the interval
            if let Op::Check(o) = *op {
                let p = m.ptr + o as i64;
                let want = iv1.is_some_and(|(lo, hi)| p >= lo && p < hi);
                if r != Some(want as u64) {
                    errors.push(format!("check({o}) returned {:?} but the interval is {:?}", r, iv1));
                }
            }
            // the pointer-based bounds query used by the bytecode interpreter answers like the offset-based
            // one: for the offset of this call and for the cells at both edges of the interval
            let mut offs: Vec<isize> = Vec::new();
            if let Op::Check(o) = *op {
                offs.push(o);
            }
            if let Some((lo, hi)) = iv1 {
                for a in [lo - 1, lo, hi - 1, hi] {
                    offs.push((a - m.ptr) as isize);
                }
            }
            for o in offs {
                let by_offset = im.mem.check(o);
                let ptr = im.mem.current_ptr().wrapping_offset(o);
                let by_ptr = im.mem.check_ptr(ptr);
                if by_offset != by_ptr {
                    errors.push(format!("check({o}) is {by_offset} but check_ptr(current_ptr()+{o}) is {by_ptr} after {}", op_str(op)));
                }
            }
        }
    }
    // final observation for the state key
    let seed = m.must.first().map(|r| r.0);
    let iv = im.interval(m.ptr, seed);
    let (lo, hi) = iv.map(|(a, b)| (a - m.ptr, b - m.ptr)).unwrap_or((0, 0));
    let cells: Vec<(i64, u64)> = m.cells.iter().filter(|(_, &v)| v != 0).map(|(&k, &v)| (k - m.ptr, v)).collect();
    drop(im);
    galloc::reset();
    let rep = galloc::report();
    if rep.canary_bad != 0 {
        errors.push("allocator canary damaged (write just outside a tape allocation)".into());
    }
    Obs { lo, hi, cells }
}

fn hist_str(h: &[Op]) -> String {
    h.iter().map(op_str).collect::<Vec<_>>().join("; ")
}

fn judge<C: CellType>(ctx: &mut WorkerCtx, hist: &[Op], place: usize) -> Obs {
    let mut errors = Vec::new();
    let obs = replay::<C>(hist, Arm { place, fail_k: 0, fail_min: 0, zeroed_only: false }, &mut errors);
    if !errors.is_empty() {
        let key = format!("C09|{}|{}|{}", C::BITS, place, hist_str(hist));
        ctx.fail(
            J::obj()
                .set("property", "C09")
                .set("kind", "tape")
                .set("key", key)
                .set("class", "model-mismatch")
                .set("width", C::BITS)
                .set("placement", place)
                .set("history", hist_str(hist))
                .set("observed", errors.join(" | ")),
        );
    }
    obs
}

fn bfs<C: CellType>(ctx: &mut WorkerCtx, depth: usize, place: usize) {
    let alpha = alphabet();
    let mut seen: HashMap<Obs, ()> = HashMap::new();
    let mut frontier: Vec<Vec<Op>> = vec![Vec::new()];
    let mut e = Vec::new();
    let root = replay::<C>(&[], Arm { place, fail_k: 0, fail_min: 0, zeroed_only: false }, &mut e);
    seen.insert(root, ());
    let (shard, nshards) = (ctx.shard, ctx.nshards);
    for d in 1..=depth {
        let last = d == depth;
        let mut next = Vec::new();
        let mut t = 0u64;
        let mut visited = 0u64;
        for (fi, hist) in frontier.iter().enumerate() {
            if last && (fi as u64) % nshards != shard {
                continue;
            }
            visited += 1;
            if visited % 64 == 1 {
                ctx.mark(d as u64 * 1_000_000_000 + fi as u64, (C::BITS as u64) << 8 | place as u64, hist_str(hist).as_bytes());
            }
            for op in &alpha {
                let mut h = hist.clone();
                h.push(*op);
                // below the last level every worker expands everything (to know the states) but
                // only reports on its own share of the transitions
                let mine = last || t % nshards == shard;
                t += 1;
                let obs = if mine {
                    ctx.count("transitions", 1);
                    ctx.count("evaluations", 1);
                    judge::<C>(ctx, &h, place)
                } else {
                    let mut e = Vec::new();
                    replay::<C>(&h, Arm { place, fail_k: 0, fail_min: 0, zeroed_only: false }, &mut e)
                };
                let mut key = Vec::new();
                key.extend_from_slice(&obs.lo.to_le_bytes());
                key.extend_from_slice(&obs.hi.to_le_bytes());
                for (k, v) in &obs.cells {
                    key.extend_from_slice(&k.to_le_bytes());
                    key.push(*v as u8);
                }
                key.push(C::BITS as u8);
                if mine {
                    ctx.distinct(fnv(&key));
                }
                if !last && !seen.contains_key(&obs) {
                    seen.insert(obs, ());
                    next.push(h);
                }
            }
        }
        frontier = next;
    }
    ctx.maxstat("depth", depth as u64);
}

fn plan(tier: Tier) -> (usize, Vec<u32>) {
    match tier {
        Tier::Quick => (4, vec![8, 64]),
        Tier::Thorough => (5, vec![8, 16, 32, 64]),
    }
}

pub fn worker(ctx: &mut WorkerCtx) {
    let (depth, widths) = plan(ctx.tier);
    for place in [galloc::PLACE_RIGHT, galloc::PLACE_LEFT] {
        for &w in &widths {
            match w {
                8 => bfs::<u8>(ctx, depth, place),
                16 => bfs::<u16>(ctx, depth, place),
                32 => bfs::<u32>(ctx, depth, place),
                _ => bfs::<u64>(ctx, depth, place),
            }
        }
    }
    if ctx.shard == 0 {
        let a = alphabet();
        ctx.sample(|| J::obj().set("history", hist_str(&[a[5], a[7], a[24], a[0], a[30]])).set("alphabet_size", a.len()));
        ctx.sample(|| J::obj().set("history", hist_str(&[Op::Write(-5000, 1), Op::Mov(1000), Op::Access(-5000, 5000), Op::Read(-6000)])));
    }
}

pub fn replay_case(j: &J) -> (bool, String) {
    let w = j.int("width").unwrap_or(8);
    let place = j.int("placement").unwrap_or(1) as usize;
    let hist: Vec<Op> = j.str("history").unwrap_or("").split("; ").filter_map(parse_op).collect();
    let mut errors = Vec::new();
    let arm = Arm { place, fail_k: 0, fail_min: 0, zeroed_only: false };
    match w {
        8 => replay::<u8>(&hist, arm, &mut errors),
        16 => replay::<u16>(&hist, arm, &mut errors),
        32 => replay::<u32>(&hist, arm, &mut errors),
        _ => replay::<u64>(&hist, arm, &mut errors),
    };
    (!errors.is_empty(), errors.join(" | "))
}

pub fn info(tier: Tier) -> CheckInfo {
    let (depth, widths) = plan(tier);
    CheckInfo {
        id: "C09",
        level: "model_checking",
        rule: format!(
            "Explicit-state breadth-first search over the real runtime::Memory<C> (C in {:?} bits), all call histories up to depth {} over \
             an alphabet of {} calls: mov(±1,±7,±1000), write(o,v) and read(o) and check(o) for o in {{0,±1,±3,±40,±5000}}, v in {{1,2}}, \
             make_accessible for six ranges (above only, below only, both sides at once, far away), and the pointer round trip \
             set_current_ptr(current_ptr()+k). After every call check_ptr(current_ptr()+o) must answer like check(o) at the call's offset and at both edges of the accessible interval. States are deduplicated on the observable state (accessible interval found by probing \
             check, contents) and rebuilt by replaying their shortest history on a fresh object under the guard-page allocator in both \
             placements. After the last call of every history: read equals the map model, reads/checks/moves never change the accessible \
             set, the set never shrinks and is one contiguous interval, requested ranges are accessible, every written cell keeps its \
             value, check agrees with the interval. states = distinct observable states reached, transitions = calls checked.",
            widths, depth, alphabet().len()
        ),
        assumptions: vec![
            "the accessible interval is measured by exponential+binary probing of check() from a known accessible cell and cross-checked on all offsets of the alphabet and all recorded range edges".into(),
            "state abstraction: (interval relative to the pointer, non-zero contents) determines all futures; the buffer address does not".into(),
        ],
        bounds: J::obj().set("depth", depth).set("widths", widths.iter().map(|&w| w as u64).collect::<Vec<_>>()).set("alphabet", alphabet().len()),
        exhaustive: true,
        hang_secs: 120,
    }
}
