//! Canonical Brainfuck reference model (DESIGN §2.1). Shares no code with hpbf.
//!
//! cells wrap modulo 2^width, the tape is unbounded in both directions and starts all-zero,
//! ',' stores the next input byte or 0 at end of input, '.' emits the low 8 bits of the cell,
//! every other character is a comment.

use hshim::env::Act;
use hshim::exec::Width;

#[derive(Clone, Copy, PartialEq, Eq, Debug)]
pub enum Verdict {
    /// the run ended
    Halt,
    /// an exact machine state repeated with no input left: the run is provably periodic
    Cycle,
    /// step cap reached: nothing is claimed
    Unknown,
    /// the text is not bracket-balanced in a way that matters (unmatched `]` executed)
    Stuck,
}

#[derive(Clone, Debug)]
pub struct Canon {
    pub verdict: Verdict,
    /// the interleaved I/O actions (for Cycle: everything up to the detection point)
    pub trace: Vec<Act>,
    pub steps: u64,
    pub bracket_execs: u64,
    pub pmin: i64,
    pub pmax: i64,
    pub inputs_requested: usize,
    /// for Cycle: trace = trace[..pre] · (trace[pre..pre+cyc])^ω
    pub pre: usize,
    pub cyc: usize,
    /// steps executed when the state that later repeated was first seen
    pub steps_to_cycle: u64,
}

/// Pre-computed bracket table. `None` entries mean unmatched.
pub fn bracket_table(code: &[u8]) -> (Vec<usize>, bool) {
    let mut jump = vec![usize::MAX; code.len()];
    let mut stack = Vec::new();
    let mut balanced = true;
    for (i, &c) in code.iter().enumerate() {
        if c == b'[' {
            stack.push(i);
        } else if c == b']' {
            if let Some(j) = stack.pop() {
                jump[i] = j;
                jump[j] = i;
            } else {
                balanced = false;
            }
        }
    }
    if !stack.is_empty() {
        balanced = false;
    }
    (jump, balanced)
}

struct Tape {
    cells: Vec<u64>,
    /// index in `cells` of logical cell 0
    origin: usize,
}

impl Tape {
    fn new() -> Self {
        Tape { cells: vec![0; 64], origin: 32 }
    }
    #[inline]
    fn slot(&mut self, p: i64) -> usize {
        let idx = self.origin as i64 + p;
        if idx < 0 {
            let add = ((-idx) as usize).max(self.cells.len());
            let mut n = vec![0; add];
            n.extend_from_slice(&self.cells);
            self.cells = n;
            self.origin += add;
            (self.origin as i64 + p) as usize
        } else if idx as usize >= self.cells.len() {
            let need = idx as usize + 1;
            let newlen = need.max(self.cells.len() * 2);
            self.cells.resize(newlen, 0);
            idx as usize
        } else {
            idx as usize
        }
    }
}

#[derive(Clone, PartialEq, Eq)]
struct Snap {
    pc: usize,
    ptr: i64,
    /// (lowest logical index, values) with zeros trimmed on both sides
    lo: i64,
    vals: Vec<u64>,
    inpos: usize,
}

fn snap(pc: usize, ptr: i64, t: &Tape, inpos: usize) -> Snap {
    let first = t.cells.iter().position(|&v| v != 0);
    match first {
        None => Snap { pc, ptr, lo: 0, vals: Vec::new(), inpos },
        Some(f) => {
            let l = t.cells.iter().rposition(|&v| v != 0).unwrap();
            Snap { pc, ptr, lo: f as i64 - t.origin as i64, vals: t.cells[f..=l].to_vec(), inpos }
        }
    }
}

/// Run `code` canonically. `detect_cycles` enables Brent cycle detection on exact states
/// (checked at every executed `]`).
pub fn run(code: &[u8], width: Width, script: &[u8], step_cap: u64, detect_cycles: bool) -> Canon {
    run_opt(code, width, script, step_cap, detect_cycles, false)
}

/// A balanced innermost loop over `+-<>` only whose own cell changes by -1 or +1 per iteration:
/// its effect after n iterations is known in closed form (textbook counted loop).
struct SimpleLoop {
    /// (offset from the loop cell, change per iteration), loop cell excluded
    deltas: Vec<(i64, i64)>,
    /// -1 or +1
    cell_delta: i64,
    lo: i64,
    hi: i64,
    body_len: u64,
}

fn simple_loops(code: &[u8], jump: &[usize]) -> Vec<Option<SimpleLoop>> {
    let mut v: Vec<Option<SimpleLoop>> = (0..code.len()).map(|_| None).collect();
    for i in 0..code.len() {
        if code[i] != b'[' || jump[i] == usize::MAX {
            continue;
        }
        let end = jump[i];
        let mut off = 0i64;
        let mut map: std::collections::BTreeMap<i64, i64> = std::collections::BTreeMap::new();
        let (mut lo, mut hi) = (0i64, 0i64);
        let mut ok = true;
        let mut len = 0u64;
        for &c in &code[i + 1..end] {
            match c {
                b'+' => *map.entry(off).or_insert(0) += 1,
                b'-' => *map.entry(off).or_insert(0) -= 1,
                b'>' => {
                    off += 1;
                    hi = hi.max(off);
                }
                b'<' => {
                    off -= 1;
                    lo = lo.min(off);
                }
                b'.' | b',' | b'[' | b']' => {
                    ok = false;
                    break;
                }
                _ => continue,
            }
            len += 1;
        }
        let cd = map.get(&0).copied().unwrap_or(0);
        if ok && off == 0 && (cd == -1 || cd == 1) {
            map.remove(&0);
            v[i] = Some(SimpleLoop { deltas: map.into_iter().filter(|x| x.1 != 0).collect(), cell_delta: cd, lo, hi, body_len: len });
        }
    }
    v
}

/// `accel`: close simple counted loops in one step (validated against the naive mode by C04).
pub fn run_opt(code: &[u8], width: Width, script: &[u8], step_cap: u64, detect_cycles: bool, accel: bool) -> Canon {
    let (jump, _) = bracket_table(code);
    let simple = if accel { simple_loops(code, &jump) } else { Vec::new() };
    let mask = width.mask();
    let mut t = Tape::new();
    let mut ptr: i64 = 0;
    let mut pc = 0usize;
    let mut c = Canon {
        verdict: Verdict::Halt,
        trace: Vec::new(),
        steps: 0,
        bracket_execs: 0,
        pmin: 0,
        pmax: 0,
        inputs_requested: 0,
        pre: 0,
        cyc: 0,
        steps_to_cycle: 0,
    };
    let mut inpos = 0usize;
    // Brent
    let mut tortoise: Option<(Snap, usize, u64)> = None;
    let mut power = 1u64;
    let mut lam = 0u64;
    let mut dispatched = 0u64;
    while pc < code.len() {
        if dispatched >= step_cap {
            c.verdict = Verdict::Unknown;
            return c;
        }
        dispatched += 1;
        let ch = code[pc];
        match ch {
            b'+' => {
                let s = t.slot(ptr);
                t.cells[s] = t.cells[s].wrapping_add(1) & mask;
            }
            b'-' => {
                let s = t.slot(ptr);
                t.cells[s] = t.cells[s].wrapping_sub(1) & mask;
            }
            b'>' => {
                ptr += 1;
                if ptr > c.pmax {
                    c.pmax = ptr;
                }
            }
            b'<' => {
                ptr -= 1;
                if ptr < c.pmin {
                    c.pmin = ptr;
                }
            }
            b'.' => {
                let s = t.slot(ptr);
                c.trace.push(Act::Out(t.cells[s] as u8));
            }
            b',' => {
                let s = t.slot(ptr);
                c.trace.push(Act::In);
                c.inputs_requested += 1;
                t.cells[s] = if inpos < script.len() { script[inpos] as u64 } else { 0 };
                if inpos < script.len() {
                    inpos += 1;
                }
            }
            b'[' if accel && simple[pc].is_some() && { let s = t.slot(ptr); t.cells[s] != 0 } => {
                let sl = simple[pc].as_ref().unwrap();
                let s = t.slot(ptr);
                let v = t.cells[s];
                let n = if sl.cell_delta == -1 { v } else { v.wrapping_neg() & mask };
                for &(off, d) in &sl.deltas {
                    let q = t.slot(ptr + off);
                    t.cells[q] = t.cells[q].wrapping_add(n.wrapping_mul(d as u64)) & mask;
                }
                let s = t.slot(ptr);
                t.cells[s] = 0;
                c.pmin = c.pmin.min(ptr + sl.lo);
                c.pmax = c.pmax.max(ptr + sl.hi);
                c.bracket_execs = c.bracket_execs.saturating_add(n.saturating_add(1));
                c.steps = c.steps.saturating_add(n.saturating_mul(sl.body_len + 1));
                pc = jump[pc];
            }
            b'[' => {
                c.bracket_execs = c.bracket_execs.saturating_add(1);
                let s = t.slot(ptr);
                if t.cells[s] == 0 {
                    if jump[pc] == usize::MAX {
                        // unmatched '[' skipped to the end of the text: the program ends
                        c.steps = c.steps.saturating_add(1);
                        return c;
                    }
                    pc = jump[pc];
                }
            }
            b']' => {
                c.bracket_execs = c.bracket_execs.saturating_add(1);
                if jump[pc] == usize::MAX {
                    c.verdict = Verdict::Stuck;
                    return c;
                }
                let s = t.slot(ptr);
                if t.cells[s] != 0 {
                    pc = jump[pc];
                    if detect_cycles {
                        let eff_in = inpos.min(script.len());
                        let cur = snap(pc, ptr, &t, eff_in);
                        if let Some((ts, at, st)) = &tortoise {
                            if *ts == cur {
                                c.verdict = Verdict::Cycle;
                                c.pre = *at;
                                c.cyc = c.trace.len() - *at;
                                c.steps_to_cycle = *st;
                                c.steps = c.steps.saturating_add(1);
                                return c;
                            }
                        }
                        lam += 1;
                        if lam == power || tortoise.is_none() {
                            tortoise = Some((cur, c.trace.len(), c.steps));
                            power *= 2;
                            lam = 0;
                        }
                    }
                }
            }
            _ => {
                // comment: not a step
                pc += 1;
                continue;
            }
        }
        c.steps = c.steps.saturating_add(1);
        pc += 1;
    }
    c
}

/// The i-th action of the infinite canonical trace of a Cycle verdict.
pub fn cyclic_action(c: &Canon, i: usize) -> Act {
    if i < c.pre + c.cyc {
        c.trace[i]
    } else {
        c.trace[c.pre + (i - c.pre) % c.cyc]
    }
}

#[cfg(test)]
mod tests {
    use super::*;
    #[test]
    fn hello() {
        let c = run(b"++++++++[>++++++++<-]>+.", Width::W8, b"", 10_000, true);
        assert_eq!(c.verdict, Verdict::Halt);
        assert_eq!(c.trace, vec![Act::Out(65)]);
    }
    #[test]
    fn cycle() {
        let c = run(b"+[.]", Width::W8, b"", 10_000, true);
        assert_eq!(c.verdict, Verdict::Cycle);
        assert!(c.cyc >= 1);
        let c = run(b"+[>+]", Width::W8, b"", 10_000, true);
        assert_eq!(c.verdict, Verdict::Unknown);
        let c = run(b"-[--]", Width::W8, b"", 10_000, true);
        assert_eq!(c.verdict, Verdict::Cycle);
        assert_eq!(c.cyc, 0);
    }
}
