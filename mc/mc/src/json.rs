//! Minimal JSON value, writer and parser (no external crates are available).

use std::collections::BTreeMap;
use std::fmt::Write;

#[derive(Clone, Debug, PartialEq)]
pub enum J {
    Null,
    Bool(bool),
    Int(i128),
    Num(f64),
    Str(String),
    Arr(Vec<J>),
    Obj(BTreeMap<String, J>),
}

impl J {
    pub fn obj() -> J {
        J::Obj(BTreeMap::new())
    }
    pub fn set(mut self, k: &str, v: impl Into<J>) -> J {
        if let J::Obj(m) = &mut self {
            m.insert(k.to_string(), v.into());
        }
        self
    }
    pub fn put(&mut self, k: &str, v: impl Into<J>) {
        if let J::Obj(m) = self {
            m.insert(k.to_string(), v.into());
        }
    }
    pub fn get(&self, k: &str) -> Option<&J> {
        if let J::Obj(m) = self {
            m.get(k)
        } else {
            None
        }
    }
    pub fn str(&self, k: &str) -> Option<&str> {
        match self.get(k) {
            Some(J::Str(s)) => Some(s),
            _ => None,
        }
    }
    pub fn int(&self, k: &str) -> Option<i128> {
        match self.get(k) {
            Some(J::Int(i)) => Some(*i),
            Some(J::Num(f)) => Some(*f as i128),
            _ => None,
        }
    }
    pub fn arr(&self, k: &str) -> Option<&Vec<J>> {
        match self.get(k) {
            Some(J::Arr(a)) => Some(a),
            _ => None,
        }
    }
    pub fn as_str(&self) -> Option<&str> {
        if let J::Str(s) = self {
            Some(s)
        } else {
            None
        }
    }
    pub fn as_int(&self) -> Option<i128> {
        match self {
            J::Int(i) => Some(*i),
            J::Num(f) => Some(*f as i128),
            _ => None,
        }
    }

    pub fn dump(&self) -> String {
        let mut s = String::new();
        self.write(&mut s, None, 0);
        s
    }
    pub fn pretty(&self) -> String {
        let mut s = String::new();
        self.write(&mut s, Some(1), 0);
        s.push('\n');
        s
    }

    fn write(&self, out: &mut String, indent: Option<usize>, depth: usize) {
        let nl = |out: &mut String, d: usize| {
            if let Some(n) = indent {
                out.push('\n');
                for _ in 0..d * n {
                    out.push(' ');
                }
            }
        };
        match self {
            J::Null => out.push_str("null"),
            J::Bool(b) => out.push_str(if *b { "true" } else { "false" }),
            J::Int(i) => {
                let _ = write!(out, "{i}");
            }
            J::Num(f) => {
                if f.is_finite() {
                    let _ = write!(out, "{f}");
                    if f.fract() == 0.0 && !format!("{f}").contains(['e', '.']) {
                        out.push_str(".0");
                    }
                } else {
                    out.push_str("null");
                }
            }
            J::Str(s) => write_str(out, s),
            J::Arr(a) => {
                out.push('[');
                let simple = a.iter().all(|x| !matches!(x, J::Arr(_) | J::Obj(_)));
                for (i, x) in a.iter().enumerate() {
                    if i > 0 {
                        out.push(',');
                        if simple && indent.is_some() {
                            out.push(' ');
                        }
                    }
                    if !simple {
                        nl(out, depth + 1);
                    }
                    x.write(out, indent, depth + 1);
                }
                if !simple && !a.is_empty() {
                    nl(out, depth);
                }
                out.push(']');
            }
            J::Obj(m) => {
                out.push('{');
                for (i, (k, v)) in m.iter().enumerate() {
                    if i > 0 {
                        out.push(',');
                    }
                    nl(out, depth + 1);
                    write_str(out, k);
                    out.push(':');
                    if indent.is_some() {
                        out.push(' ');
                    }
                    v.write(out, indent, depth + 1);
                }
                if !m.is_empty() {
                    nl(out, depth);
                }
                out.push('}');
            }
        }
    }

    pub fn parse(s: &str) -> Result<J, String> {
        let b = s.as_bytes();
        let mut p = 0;
        let v = parse_val(b, &mut p)?;
        skip_ws(b, &mut p);
        if p != b.len() {
            return Err(format!("trailing data at {p}"));
        }
        Ok(v)
    }
}

fn write_str(out: &mut String, s: &str) {
    out.push('"');
    for c in s.chars() {
        match c {
            '"' => out.push_str("\\\""),
            '\\' => out.push_str("\\\\"),
            '\n' => out.push_str("\\n"),
            '\r' => out.push_str("\\r"),
            '\t' => out.push_str("\\t"),
            c if (c as u32) < 0x20 => {
                let _ = write!(out, "\\u{:04x}", c as u32);
            }
            c => out.push(c),
        }
    }
    out.push('"');
}

fn skip_ws(b: &[u8], p: &mut usize) {
    while *p < b.len() && matches!(b[*p], b' ' | b'\n' | b'\r' | b'\t') {
        *p += 1;
    }
}

fn parse_val(b: &[u8], p: &mut usize) -> Result<J, String> {
    skip_ws(b, p);
    if *p >= b.len() {
        return Err("eof".into());
    }
    match b[*p] {
        b'n' if b[*p..].starts_with(b"null") => {
            *p += 4;
            Ok(J::Null)
        }
        b't' if b[*p..].starts_with(b"true") => {
            *p += 4;
            Ok(J::Bool(true))
        }
        b'f' if b[*p..].starts_with(b"false") => {
            *p += 5;
            Ok(J::Bool(false))
        }
        b'"' => Ok(J::Str(parse_str(b, p)?)),
        b'[' => {
            *p += 1;
            let mut a = Vec::new();
            skip_ws(b, p);
            if *p < b.len() && b[*p] == b']' {
                *p += 1;
                return Ok(J::Arr(a));
            }
            loop {
                a.push(parse_val(b, p)?);
                skip_ws(b, p);
                if *p >= b.len() {
                    return Err("eof in array".into());
                }
                if b[*p] == b',' {
                    *p += 1;
                } else if b[*p] == b']' {
                    *p += 1;
                    return Ok(J::Arr(a));
                } else {
                    return Err(format!("bad array at {p}", p = *p));
                }
            }
        }
        b'{' => {
            *p += 1;
            let mut m = BTreeMap::new();
            skip_ws(b, p);
            if *p < b.len() && b[*p] == b'}' {
                *p += 1;
                return Ok(J::Obj(m));
            }
            loop {
                skip_ws(b, p);
                let k = parse_str(b, p)?;
                skip_ws(b, p);
                if *p >= b.len() || b[*p] != b':' {
                    return Err(format!("expected : at {p}", p = *p));
                }
                *p += 1;
                let v = parse_val(b, p)?;
                m.insert(k, v);
                skip_ws(b, p);
                if *p >= b.len() {
                    return Err("eof in object".into());
                }
                if b[*p] == b',' {
                    *p += 1;
                } else if b[*p] == b'}' {
                    *p += 1;
                    return Ok(J::Obj(m));
                } else {
                    return Err(format!("bad object at {p}", p = *p));
                }
            }
        }
        _ => {
            let st = *p;
            while *p < b.len() && matches!(b[*p], b'-' | b'+' | b'.' | b'e' | b'E' | b'0'..=b'9') {
                *p += 1;
            }
            let t = std::str::from_utf8(&b[st..*p]).map_err(|e| e.to_string())?;
            if let Ok(i) = t.parse::<i128>() {
                Ok(J::Int(i))
            } else {
                t.parse::<f64>().map(J::Num).map_err(|_| format!("bad number `{t}` at {st}"))
            }
        }
    }
}

fn parse_str(b: &[u8], p: &mut usize) -> Result<String, String> {
    if *p >= b.len() || b[*p] != b'"' {
        return Err(format!("expected string at {p}", p = *p));
    }
    *p += 1;
    let mut out = Vec::new();
    while *p < b.len() {
        match b[*p] {
            b'"' => {
                *p += 1;
                return String::from_utf8(out).map_err(|e| e.to_string());
            }
            b'\\' => {
                *p += 1;
                if *p >= b.len() {
                    break;
                }
                match b[*p] {
                    b'n' => out.push(b'\n'),
                    b'r' => out.push(b'\r'),
                    b't' => out.push(b'\t'),
                    b'b' => out.push(8),
                    b'f' => out.push(12),
                    b'u' => {
                        let h = std::str::from_utf8(&b[*p + 1..*p + 5]).map_err(|e| e.to_string())?;
                        let mut c = u32::from_str_radix(h, 16).map_err(|e| e.to_string())?;
                        *p += 4;
                        if (0xD800..0xDC00).contains(&c) && b[*p + 1..].starts_with(b"\\u") {
                            let h2 = std::str::from_utf8(&b[*p + 3..*p + 7]).map_err(|e| e.to_string())?;
                            let lo = u32::from_str_radix(h2, 16).map_err(|e| e.to_string())?;
                            c = 0x10000 + ((c - 0xD800) << 10) + (lo - 0xDC00);
                            *p += 6;
                        }
                        let ch = char::from_u32(c).unwrap_or('\u{fffd}');
                        let mut buf = [0u8; 4];
                        out.extend_from_slice(ch.encode_utf8(&mut buf).as_bytes());
                    }
                    c => out.push(c),
                }
                *p += 1;
            }
            c => {
                out.push(c);
                *p += 1;
            }
        }
    }
    Err("unterminated string".into())
}

impl From<&str> for J {
    fn from(s: &str) -> J {
        J::Str(s.to_string())
    }
}
impl From<String> for J {
    fn from(s: String) -> J {
        J::Str(s)
    }
}
impl From<bool> for J {
    fn from(b: bool) -> J {
        J::Bool(b)
    }
}
impl From<f64> for J {
    fn from(b: f64) -> J {
        J::Num(b)
    }
}
macro_rules! from_int {
    ($($t:ty),*) => {$(impl From<$t> for J { fn from(i: $t) -> J { J::Int(i as i128) } })*};
}
from_int!(i32, i64, u32, u64, usize, isize, u8, u16, i128);
impl<T: Into<J>> From<Vec<T>> for J {
    fn from(v: Vec<T>) -> J {
        J::Arr(v.into_iter().map(Into::into).collect())
    }
}
impl<T: Into<J>> From<Option<T>> for J {
    fn from(v: Option<T>) -> J {
        match v {
            Some(x) => x.into(),
            None => J::Null,
        }
    }
}
