//! Form coverage (DESIGN §2.3): which instruction-selector arm of the baseline JIT a bytecode
//! instruction takes, derived from public `bc::Program` fields: operand kinds (M = tape cell,
//! R = register temporary < 11, S = stack temporary >= 11, i = immediate that fits i32,
//! I = larger immediate) and destination/source aliasing.

use hshim::exec::{BcInstr, BcLoc, Width};

fn kind(l: &BcLoc, w: Width) -> &'static str {
    match l {
        BcLoc::Mem(_) | BcLoc::MemZero(_) => "M",
        BcLoc::Tmp(t) if *t < 11 => "R",
        BcLoc::Tmp(_) => "S",
        BcLoc::Imm(v) => {
            // the JIT sign-extends the cell value and asks whether it fits an i32
            let bits = w.bits();
            let sv = if bits == 64 { *v as i64 } else { ((*v << (64 - bits)) as i64) >> (64 - bits) };
            if i32::try_from(sv).is_ok() {
                "i"
            } else {
                "I"
            }
        }
    }
}

pub fn jit_form(i: &BcInstr, w: Width) -> Option<String> {
    let (op, d, a, b) = match i {
        BcInstr::Add(d, a, b) => ("add", d, a, Some(b)),
        BcInstr::Sub(d, a, b) => ("sub", d, a, Some(b)),
        BcInstr::Mul(d, a, b) => ("mul", d, a, Some(b)),
        BcInstr::Copy(d, a) => ("copy", d, a, None),
        _ => return None,
    };
    let mut s = format!("{op} {},{}", kind(d, w), kind(a, w));
    if let Some(b) = b {
        s.push(',');
        s.push_str(kind(b, w));
        if d == a {
            s.push_str(" d=a");
        } else if d == b {
            s.push_str(" d=b");
        }
    }
    Some(s)
}

/// Arms that only programs with many live values or wide constants reach.
pub fn interesting_forms() -> Vec<String> {
    [
        "add S,S,i", "add S,R,i", "add R,S,i", "add S,S,I", "add R,R,I", "add S,R,I", "add S,S,S", "add S,S,S d=a", "add S,M,S", "add S,M,M",
        "add M,S,S", "add M,S,i", "add M,S,I", "add M,M,S", "add M,M,S d=a", "add S,S,M d=a", "sub S,M,S", "sub M,S,S", "sub S,S,S", "sub S,i,S",
        "sub M,i,S", "mul S,M,M", "mul S,S,S d=a", "mul S,S,i", "mul S,S,I", "mul S,M,i", "mul S,M,I", "mul M,S,i", "mul M,S,I", "mul S,M,S",
        "copy S,M", "copy M,S", "copy S,i", "copy S,I", "copy S,S", "copy S,R", "copy R,S", "copy M,I", "add M,M,I d=a", "mul M,M,I",
        "add R,R,I d=a", "add M,R,I", "add R,M,I", "add S,M,I", "add R,R,S", "add S,R,S", "add S,R,R", "add R,S,S", "mul S,S,i d=a",
        "mul S,R,S", "mul S,R,R", "mul S,R,i", "mul R,R,S", "mul M,M,S d=a", "sub M,S,R", "sub M,S,M d=b", "sub R,S,R", "sub S,S,R",
        "sub S,R,R", "sub M,R,S", "mul R,S,i", "mul R,R,I", "mul R,R,I d=a", "mul M,R,I", "mul R,M,I",
    ]
    .iter()
    .map(|s| s.to_string())
    .collect()
}
