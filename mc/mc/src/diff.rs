//! Judging one execution of an hpbf backend against the canonical reference (DESIGN §2.4, §2.6).

use hshim::env::{Act, Env, EnvRef, OutFail};
use hshim::exec::{Backend, Compiled, Mode, Width};
use hshim::galloc::Arm;

use crate::framework::{isolated, Iso};
use crate::json::J;
use crate::refbf::{self, Canon, Verdict};

pub fn trace_str(t: &[Act]) -> String {
    let mut s = String::new();
    for (i, a) in t.iter().enumerate() {
        if i > 0 {
            s.push(' ');
        }
        match a {
            Act::In => s.push('I'),
            Act::Out(b) => s.push_str(&format!("{b:02x}")),
        }
    }
    s
}

pub fn script_hex(s: &[u8]) -> String {
    s.iter().map(|b| format!("{b:02x}")).collect()
}

pub fn parse_hex(s: &str) -> Vec<u8> {
    (0..s.len() / 2).filter_map(|i| u8::from_str_radix(&s[2 * i..2 * i + 2], 16).ok()).collect()
}

pub fn profile() -> &'static str {
    if cfg!(debug_assertions) {
        "relda"
    } else {
        "release"
    }
}

/// Compare an observed log with the expected trace: None if equal.
pub fn classify(observed: &[Act], expected: &[Act]) -> Option<(&'static str, usize)> {
    let n = observed.len().min(expected.len());
    for i in 0..n {
        if observed[i] != expected[i] {
            return Some(("wrong", i));
        }
    }
    if observed.len() < expected.len() {
        Some(("missing", n))
    } else if observed.len() > expected.len() {
        Some(("extra", n))
    } else {
        None
    }
}

pub const INPUT_ALPHABET: [u8; 5] = [0, 1, 2, 128, 255];

/// Explore the environment choice tree of a program on demand (DESIGN §2.2): start with the
/// empty script; whenever the canonical run asked for more input than the script holds, branch
/// on every next byte, up to `depth` scripted bytes. Returns every (script, canonical run).
pub fn explore_env(code: &[u8], width: Width, depth: usize, step_cap: u64, cycles: bool) -> Vec<(Vec<u8>, Canon)> {
    let mut out = Vec::new();
    let mut stack: Vec<Vec<u8>> = vec![Vec::new()];
    while let Some(script) = stack.pop() {
        let c = refbf::run(code, width, &script, step_cap, cycles);
        let wants_more = c.inputs_requested > script.len();
        if wants_more && script.len() < depth {
            for &b in INPUT_ALPHABET.iter().rev() {
                let mut s = script.clone();
                s.push(b);
                stack.push(s);
            }
        }
        out.push((script, c));
    }
    out
}

pub const MAX_HANG_CONFIRMATIONS: u32 = 6;
thread_local! {
    pub static HANG_CONFIRMATIONS: std::cell::Cell<u32> = const { std::cell::Cell::new(0) };
}

/// True while this worker may still spend wall-clock time on confirming a suspected hang.
pub fn may_confirm_hang() -> bool {
    HANG_CONFIRMATIONS.with(|h| {
        let v = h.get();
        h.set(v + 1);
        v < MAX_HANG_CONFIRMATIONS
    })
}

pub struct Failure {
    pub class: String,
    pub mode: String,
    pub observed: String,
    pub expected: String,
    pub first_diff: usize,
    pub detail: String,
}

pub fn mode_str(m: Mode) -> String {
    match m {
        Mode::Execute => "execute".into(),
        Mode::Limited(b) => format!("limited:{b}"),
        Mode::Unsafe { lo, hi } => format!("unsafe:{lo}:{hi}"),
    }
}

pub fn parse_mode(s: &str) -> Mode {
    let parts: Vec<&str> = s.split(':').collect();
    match parts[0] {
        "limited" => Mode::Limited(parts[1].parse().unwrap_or(0)),
        "unsafe" => Mode::Unsafe { lo: parts[1].parse().unwrap_or(0), hi: parts[2].parse().unwrap_or(0) },
        _ => Mode::Execute,
    }
}

/// One in-process run; returns (result, log).
pub fn run_logged(c: &Compiled, mode: Mode, script: &[u8], cap: usize, arm: Arm) -> (hshim::exec::RunResult, Vec<Act>) {
    let env = Env::new(script, cap);
    let r = c.run(mode, &env, true, true, arm);
    let log = std::mem::take(&mut env.borrow_mut().log);
    (r, log)
}

pub fn run_env(c: &Compiled, mode: Mode, env: &EnvRef, input_present: bool, arm: Arm) -> hshim::exec::RunResult {
    c.run(mode, env, input_present, true, arm)
}

fn encode_iso(r: &hshim::exec::RunResult, log: &[Act]) -> Vec<u8> {
    // [flags][panic msg len u32][msg][log...]
    let mut v = Vec::new();
    v.push(match r.finished {
        None => 2,
        Some(true) => 1,
        Some(false) => 0,
    });
    let msg = r.panicked.clone().unwrap_or_default();
    v.push(r.panicked.is_some() as u8);
    v.extend_from_slice(&(msg.len() as u32).to_le_bytes());
    v.extend_from_slice(msg.as_bytes());
    v.extend_from_slice(&(r.alloc.canary_bad as u32).to_le_bytes());
    for a in log {
        match a {
            Act::In => v.extend_from_slice(&[1, 0]),
            Act::Out(b) => v.extend_from_slice(&[2, *b]),
        }
    }
    v
}

pub struct IsoRun {
    pub finished: Option<bool>,
    pub panicked: Option<String>,
    pub canary_bad: u32,
    pub log: Vec<Act>,
}

fn decode_iso(v: &[u8]) -> Option<IsoRun> {
    if v.len() < 10 {
        return None;
    }
    let finished = match v[0] {
        2 => None,
        1 => Some(true),
        _ => Some(false),
    };
    let has_panic = v[1] != 0;
    let n = u32::from_le_bytes(v[2..6].try_into().ok()?) as usize;
    let msg = String::from_utf8_lossy(v.get(6..6 + n)?).to_string();
    let mut p = 6 + n;
    let canary_bad = u32::from_le_bytes(v.get(p..p + 4)?.try_into().ok()?);
    p += 4;
    let mut log = Vec::new();
    while p + 1 < v.len() {
        log.push(if v[p] == 1 { Act::In } else { Act::Out(v[p + 1]) });
        p += 2;
    }
    Some(IsoRun { finished, panicked: if has_panic { Some(msg) } else { None }, canary_bad, log })
}

/// Run in a forked child under a wall-clock watchdog.
pub enum IsoOutcome {
    Ran(IsoRun),
    Hang,
    Crash(String),
}

pub fn run_isolated(
    c: &Compiled,
    mode: Mode,
    script: &[u8],
    cap: usize,
    fail_at: Option<(usize, OutFail)>,
    input_present: bool,
    arm: Arm,
    timeout_ms: u64,
) -> IsoOutcome {
    let r = isolated(timeout_ms, || {
        let env = Env::new(script, cap);
        if let Some((at, k)) = fail_at {
            env.borrow_mut().fail_at = Some(at);
            env.borrow_mut().out_fail = k;
        }
        let r = c.run(mode, &env, input_present, true, arm);
        let log = std::mem::take(&mut env.borrow_mut().log);
        encode_iso(&r, &log)
    });
    match r {
        Iso::Done(b) => match decode_iso(&b) {
            Some(x) => IsoOutcome::Ran(x),
            None => IsoOutcome::Crash("short result".into()),
        },
        Iso::Timeout => IsoOutcome::Hang,
        Iso::Signal(s) => IsoOutcome::Crash(format!("signal {s}")),
        Iso::Exit(e) => IsoOutcome::Crash(format!("exit {e}")),
    }
}

/// Screening budget: every backend spends at most 2 budget units per canonical bracket
/// execution (DESIGN §2.6), so a correct backend finishes well inside 4*steps+64.
pub fn screen_budget(c: &Canon) -> usize {
    // capped: the accelerated reference reports astronomically many (virtual) steps for wide values
    (c.steps.saturating_mul(4).saturating_add(64)).min(1 << 26) as usize
}

/// Judge a halting canonical run that only the *accelerated* reference could finish (the naive run
/// exceeds the step cap, e.g. a loop that adds a 2^37 constant one unit at a time). Whether a correct
/// backend finishes such a program quickly depends on which loops its optimiser closes, which no
/// property demands: a run that is still going at a generous budget is inconclusive (Ok(false)), never
/// a violation. A run that finishes must show the canonical trace; an interrupted one a prefix of it.
pub fn judge_halting_lenient(c: &Compiled, script: &[u8], canon: &Canon) -> Result<bool, Failure> {
    let expected = &canon.trace;
    let cap = expected.len() + 4;
    let budget = screen_budget(canon).saturating_mul(16).max(1 << 20);
    let (r, log) = run_logged(c, Mode::Limited(budget), script, cap, Arm::default());
    let fail = |class: &str, mode: String, log: &[Act], i: usize, detail: String| Failure {
        class: class.into(),
        mode,
        observed: trace_str(log),
        expected: trace_str(expected),
        first_diff: i,
        detail,
    };
    if let Some(p) = r.panicked {
        return Err(fail("panic", mode_str(Mode::Limited(budget)), &log, 0, p));
    }
    if let Some((not_opened, pos)) = r.err {
        return Err(fail(
            "error",
            mode_str(Mode::Limited(budget)),
            &log,
            0,
            format!("execution of a balanced program returned Err(loop_not_opened={not_opened}, position {pos})"),
        ));
    }
    if r.finished == Some(true) {
        // the unlimited twin is safe to run in-process: its limited twin just terminated
        let (r2, log2) = run_logged(c, Mode::Execute, script, cap, Arm::default());
        if let Some(p) = r2.panicked {
            return Err(fail("panic", "execute".into(), &log2, 0, p));
        }
        return match classify(&log2, expected) {
            None => Ok(true),
            Some((cl, i)) => Err(fail(cl, "execute".into(), &log2, i, "canonical trace from the accelerated reference".into())),
        };
    }
    match classify(&log, expected) {
        None | Some(("missing", _)) => Ok(false),
        Some((cl, i)) => Err(fail(cl, mode_str(Mode::Limited(budget)), &log, i, "interrupted run is not a prefix of the canonical trace (accelerated reference)".into())),
    }
}

/// Judge a *halting* canonical run against the backend's plain `execute` (screened through
/// `execute_limited` so that miscompiled hangs stay cheap). `known_hang` lets a listed member of a
/// known hang finding skip the wall-clock run.
pub fn judge_halting(c: &Compiled, script: &[u8], canon: &Canon, known_hang: bool) -> Result<(), Failure> {
    debug_assert!(canon.verdict == Verdict::Halt);
    let expected = &canon.trace;
    let cap = expected.len() + 4;
    let b0 = screen_budget(canon);
    let (r, log) = run_logged(c, Mode::Limited(b0), script, cap, Arm::default());
    if let Some(p) = r.panicked {
        return Err(Failure {
            class: "panic".into(),
            mode: mode_str(Mode::Limited(b0)),
            observed: trace_str(&log),
            expected: trace_str(expected),
            first_diff: 0,
            detail: p,
        });
    }
    if let Some((not_opened, pos)) = r.err {
        return Err(Failure {
            class: "error".into(),
            mode: mode_str(Mode::Limited(b0)),
            observed: trace_str(&log),
            expected: trace_str(expected),
            first_diff: 0,
            detail: format!("execution of a balanced program returned Err(loop_not_opened={not_opened}, position {pos})"),
        });
    }
    if r.finished == Some(true) && log == *expected {
        // the unlimited twin is safe to run in-process: its limited twin just terminated
        let (r2, log2) = run_logged(c, Mode::Execute, script, cap, Arm::default());
        if let Some(p) = r2.panicked {
            return Err(Failure {
                class: "panic".into(),
                mode: "execute".into(),
                observed: trace_str(&log2),
                expected: trace_str(expected),
                first_diff: 0,
                detail: p,
            });
        }
        return match classify(&log2, expected) {
            None => Ok(()),
            Some((cl, i)) => Err(Failure {
                class: cl.into(),
                mode: "execute".into(),
                observed: trace_str(&log2),
                expected: trace_str(expected),
                first_diff: i,
                detail: "limited twin agreed, unlimited run differs".into(),
            }),
        };
    }
    if r.finished == Some(true) {
        // finished with a wrong trace: the unlimited run is safe as well
        let (_, log2) = run_logged(c, Mode::Execute, script, cap, Arm::default());
        if let Some((cl, i)) = classify(&log2, expected) {
            return Err(Failure {
                class: cl.into(),
                mode: "execute".into(),
                observed: trace_str(&log2),
                expected: trace_str(expected),
                first_diff: i,
                detail: String::new(),
            });
        }
        // limited wrong but unlimited right: report under the limited mode (C07 territory);
        // for the equivalence properties this is not a violation
        return Ok(());
    }
    if known_hang {
        return Err(Failure {
            class: "hang".into(),
            mode: "execute".into(),
            observed: String::new(),
            expected: trace_str(expected),
            first_diff: 0,
            detail: "listed hang: reproduced at the screening budget".into(),
        });
    }
    // interrupted at the screening budget: escalate the budget once (x16: a correct backend needs
    // less than B0/2), then take the real observation — the unlimited run, isolated under a watchdog.
    // Wall-clock confirmations are limited per worker so that a change which turns thousands of
    // cases into hangs still terminates: beyond the limit the escalated budget run is the evidence.
    let big = b0.saturating_mul(16);
    let (r3, log3) = run_logged(c, Mode::Limited(big), script, cap, Arm::default());
    if r3.finished == Some(true) && log3 == *expected {
        let (_, log4) = run_logged(c, Mode::Execute, script, cap, Arm::default());
        return match classify(&log4, expected) {
            None => Ok(()),
            Some((cl, i)) => Err(Failure {
                class: cl.into(),
                mode: "execute".into(),
                observed: trace_str(&log4),
                expected: trace_str(expected),
                first_diff: i,
                detail: "limited twin agreed at 16*B0, unlimited run differs".into(),
            }),
        };
    }
    if r3.finished == Some(false) && !may_confirm_hang() {
        return Err(Failure {
            class: "hang".into(),
            mode: "execute".into(),
            observed: trace_str(&log3),
            expected: trace_str(expected),
            first_diff: 0,
            detail: format!(
                "still interrupted at budget {big} (16 x the screening budget; canonical run takes {} steps); wall-clock confirmation skipped after {MAX_HANG_CONFIRMATIONS} confirmed hangs in this worker",
                canon.steps
            ),
        });
    }
    match run_isolated(c, Mode::Execute, script, cap, None, true, Arm::default(), 2000) {
        IsoOutcome::Ran(x) => {
            if let Some(p) = x.panicked {
                return Err(Failure {
                    class: "panic".into(),
                    mode: "execute".into(),
                    observed: trace_str(&x.log),
                    expected: trace_str(expected),
                    first_diff: 0,
                    detail: p,
                });
            }
            match classify(&x.log, expected) {
                None => Ok(()),
                Some((cl, i)) => Err(Failure {
                    class: cl.into(),
                    mode: "execute".into(),
                    observed: trace_str(&x.log),
                    expected: trace_str(expected),
                    first_diff: i,
                    detail: String::new(),
                }),
            }
        }
        IsoOutcome::Hang => Err(Failure {
            class: "hang".into(),
            mode: "execute".into(),
            observed: String::new(),
            expected: trace_str(expected),
            first_diff: 0,
            detail: format!("no return within 2 s; canonical run takes {} steps", canon.steps),
        }),
        IsoOutcome::Crash(s) => Err(Failure {
            class: "crash".into(),
            mode: "execute".into(),
            observed: String::new(),
            expected: trace_str(expected),
            first_diff: 0,
            detail: s,
        }),
    }
}

pub fn case_key(prop: &str, backend: Backend, width: Width, level: u32, mode: &str, code: &[u8], script: &[u8]) -> String {
    // limited budgets are part of the mode string only by kind, so keys stay stable
    let mode_kind = mode.split(':').next().unwrap_or(mode);
    format!(
        "{prop}|{}|{}|{}|{}|{}|{}|{}",
        profile(),
        backend.name(),
        width.bits(),
        level,
        mode_kind,
        String::from_utf8_lossy(code),
        script_hex(script)
    )
}

pub fn failure_json(prop: &str, backend: Backend, width: Width, level: u32, code: &[u8], script: &[u8], f: &Failure) -> J {
    J::obj()
        .set("property", prop)
        .set("kind", "exec")
        .set("key", case_key(prop, backend, width, level, &f.mode, code, script))
        .set("class", f.class.as_str())
        .set("profile", profile())
        .set("backend", backend.name())
        .set("width", width.bits())
        .set("level", level)
        .set("program", String::from_utf8_lossy(code).to_string())
        .set("script", script_hex(script))
        .set("mode", f.mode.as_str())
        .set("expected", f.expected.as_str())
        .set("observed", f.observed.as_str())
        .set("first_diff", f.first_diff)
        .set("detail", f.detail.as_str())
}
