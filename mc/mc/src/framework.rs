//! Driver / worker process architecture (DESIGN §2.5), violation handling (§2.8) and
//! evidence writing (§2.12).

use std::collections::{BTreeMap, HashMap, HashSet};
use std::io::{BufRead, BufReader, Write};
use std::os::unix::process::CommandExt;
use std::process::{Child, Command, Stdio};
use std::time::{Duration, Instant};

use crate::json::J;

#[derive(Clone, Copy, PartialEq, Eq, Debug)]
pub enum Tier {
    Quick,
    Thorough,
}

impl Tier {
    pub fn name(self) -> &'static str {
        match self {
            Tier::Quick => "quick",
            Tier::Thorough => "thorough",
        }
    }
    pub fn parse(s: &str) -> Option<Tier> {
        match s {
            "quick" => Some(Tier::Quick),
            "thorough" => Some(Tier::Thorough),
            _ => None,
        }
    }
}

pub const MARKER_SIZE: usize = 8192;
const TEXT_OFF: usize = 32;

/// Static description of a check, merged into the evidence file.
pub struct CheckInfo {
    pub id: &'static str,
    pub level: &'static str,
    pub rule: String,
    pub assumptions: Vec<String>,
    pub bounds: J,
    pub exhaustive: bool,
    /// seconds without progress after which a worker counts as hung
    pub hang_secs: u64,
}

pub struct KnownDb {
    /// key -> (finding id, class)
    pub members: HashMap<String, (String, String)>,
    pub descriptions: BTreeMap<String, String>,
}

pub fn load_known(property: &str) -> KnownDb {
    let mut db = KnownDb { members: HashMap::new(), descriptions: BTreeMap::new() };
    let path = format!("{}/known_findings.json", crate::verif_dir());
    let Ok(text) = std::fs::read_to_string(&path) else { return db };
    let Ok(j) = J::parse(&text) else { return db };
    if let Some(fs) = j.arr("findings") {
        for f in fs {
            if f.str("property") != Some(property) {
                continue;
            }
            let id = f.str("id").unwrap_or("?").to_string();
            db.descriptions.insert(id.clone(), f.str("what_fails").unwrap_or("").to_string());
            if let Some(ms) = f.arr("members") {
                for m in ms {
                    if let (Some(k), Some(c)) = (m.str("key"), m.str("class")) {
                        db.members.insert(k.to_string(), (id.clone(), c.to_string()));
                    }
                }
            }
            if let Some(file) = f.str("members_file") {
                if let Ok(t) = std::fs::read_to_string(format!("{}/{}", crate::verif_dir(), file)) {
                    for line in t.lines() {
                        if let Some((c, k)) = line.split_once('\t') {
                            db.members.insert(k.to_string(), (id.clone(), c.to_string()));
                        }
                    }
                }
            }
        }
    }
    db
}

pub struct WorkerCtx {
    pub check: String,
    pub tier: Tier,
    pub shard: u64,
    pub nshards: u64,
    pub resume_after: i64,
    /// only this case index (replay of a crash/hang candidate)
    pub only: Option<u64>,
    marker: *mut u8,
    pub stats: BTreeMap<String, u64>,
    pub distinct: HashSet<u64>,
    pub samples: Vec<J>,
    pub max_samples: usize,
    pub violations: u64,
    emitted: usize,
    pub known: KnownDb,
    pub known_hits: BTreeMap<String, u64>,
    heartbeat: u64,
    pub seed: u64,
    /// replay mode: failures are collected instead of printed
    pub collected: Option<Vec<J>>,
    /// (key, value) observations that must agree across all workers that report the key
    pub pairs: Vec<(u64, u64)>,
}

impl WorkerCtx {
    pub fn owns(&self, idx: u64) -> bool {
        if let Some(o) = self.only {
            return idx == o;
        }
        idx % self.nshards == self.shard && (idx as i64) > self.resume_after
    }

    /// Record which case is about to run (read by the parent if this process dies or hangs).
    pub fn mark(&mut self, idx: u64, sub: u64, text: &[u8]) {
        self.heartbeat += 1;
        if self.marker.is_null() {
            return;
        }
        unsafe {
            let p = self.marker;
            (p as *mut u64).write_volatile(idx);
            (p.add(8) as *mut u64).write_volatile(sub);
            (p.add(16) as *mut u64).write_volatile(self.heartbeat);
            let n = text.len().min(MARKER_SIZE - TEXT_OFF);
            (p.add(24) as *mut u64).write_volatile(n as u64);
            std::ptr::copy_nonoverlapping(text.as_ptr(), p.add(TEXT_OFF), n);
        }
    }

    /// The marker as last written (by this process or by a forked child sharing the mapping).
    pub fn read_mark(&self) -> (u64, u64) {
        if self.marker.is_null() {
            return (0, 0);
        }
        unsafe { ((self.marker as *const u64).read_volatile(), (self.marker.add(8) as *const u64).read_volatile()) }
    }

    /// Run `f` on this context inside a forked child (crash / hang isolation for code that has no
    /// budget). Counters, distinct hashes and known-finding hits made by the child are merged
    /// back; violations are printed by the child itself. Returns how the child ended.
    pub fn in_child(&mut self, timeout_ms: u64, f: impl FnOnce(&mut WorkerCtx)) -> Iso {
        let r = {
            let me: *mut WorkerCtx = self;
            isolated(timeout_ms, move || {
                // Safety: the child owns its copy of the address space
                let ctx = unsafe { &mut *me };
                ctx.stats.clear();
                ctx.distinct.clear();
                ctx.known_hits.clear();
                ctx.violations = 0;
                if let Some(c) = &mut ctx.collected {
                    c.clear();
                }
                f(ctx);
                let mut out = String::new();
                if let Some(c) = &ctx.collected {
                    for j in c {
                        out.push_str(&format!("c\t{}\n", j.dump()));
                    }
                }
                for (k, v) in &ctx.stats {
                    out.push_str(&format!("s\t{k}\t{v}\n"));
                }
                for (k, v) in &ctx.known_hits {
                    out.push_str(&format!("k\t{k}\t{v}\n"));
                }
                out.push_str(&format!("v\t{}\n", ctx.violations));
                for h in &ctx.distinct {
                    out.push_str(&format!("d\t{h}\n"));
                }
                out.into_bytes()
            })
        };
        if let Iso::Done(bytes) = &r {
            for line in String::from_utf8_lossy(bytes).lines() {
                let mut it = line.split('\t');
                match (it.next(), it.next(), it.next()) {
                    (Some("s"), Some(k), Some(v)) => {
                        let v: u64 = v.parse().unwrap_or(0);
                        if k.starts_with("max:") {
                            let e = self.stats.entry(k.to_string()).or_insert(0);
                            *e = (*e).max(v);
                        } else {
                            *self.stats.entry(k.to_string()).or_insert(0) += v;
                        }
                    }
                    (Some("k"), Some(k), Some(v)) => *self.known_hits.entry(k.to_string()).or_insert(0) += v.parse().unwrap_or(0),
                    (Some("v"), Some(v), _) => {
                        let n: u64 = v.parse().unwrap_or(0);
                        self.violations += n;
                        self.emitted += n.min(40) as usize;
                    }
                    (Some("c"), Some(_), _) => {
                        if let (Some(c), Some((_, js))) = (&mut self.collected, line.split_once('\t')) {
                            if let Ok(j) = J::parse(js) {
                                c.push(j);
                            }
                        }
                    }
                    (Some("d"), Some(h), _) => {
                        if let Ok(h) = h.parse() {
                            self.distinct.insert(h);
                        }
                    }
                    _ => {}
                }
            }
        }
        r
    }

    /// Cheap progress signal inside long cases.
    pub fn beat(&mut self, sub: u64) {
        self.heartbeat += 1;
        if self.marker.is_null() {
            return;
        }
        unsafe {
            (self.marker.add(8) as *mut u64).write_volatile(sub);
            (self.marker.add(16) as *mut u64).write_volatile(self.heartbeat);
        }
    }

    pub fn count(&mut self, key: &str, n: u64) {
        *self.stats.entry(key.to_string()).or_insert(0) += n;
    }

    pub fn maxstat(&mut self, key: &str, n: u64) {
        let e = self.stats.entry(format!("max:{key}")).or_insert(0);
        if *e < n {
            *e = n;
        }
    }

    pub fn distinct(&mut self, h: u64) {
        self.distinct.insert(h);
    }

    pub fn sample(&mut self, j: impl FnOnce() -> J) {
        if self.samples.len() < self.max_samples {
            let v = j();
            self.samples.push(v);
        }
    }

    /// Report a failing case. `case` must contain "key" and "class". Members of a known finding
    /// (same key, same class) are counted; everything else is a violation.
    pub fn fail(&mut self, case: J) {
        let case = case.set("check", self.check.as_str()).set("tier", self.tier.name());
        if let Some(c) = &mut self.collected {
            c.push(case);
            return;
        }
        let key = case.str("key").unwrap_or("").to_string();
        let class = case.str("class").unwrap_or("").to_string();
        if let Some((id, c)) = self.known.members.get(&key) {
            if *c == class {
                *self.known_hits.entry(id.clone()).or_insert(0) += 1;
                return;
            }
        }
        self.violations += 1;
        if self.emitted < 40 {
            self.emitted += 1;
            let out = std::io::stdout();
            let mut l = out.lock();
            let _ = writeln!(l, "V\t{}", case.dump());
            let _ = l.flush();
        }
    }

    /// Record an observation that every other worker reporting the same key must share.
    pub fn agree(&mut self, key: u64, value: u64) {
        self.pairs.push((key, value));
    }

    pub fn finish(&mut self) {
        if let Ok(path) = std::env::var("MC_PAIRS_FILE") {
            let mut bytes = Vec::with_capacity(self.pairs.len() * 16);
            for (k, v) in &self.pairs {
                bytes.extend_from_slice(&k.to_le_bytes());
                bytes.extend_from_slice(&v.to_le_bytes());
            }
            if let Ok(mut f) = std::fs::OpenOptions::new().create(true).append(true).open(path) {
                let _ = f.write_all(&bytes);
            }
        }
        let mut s = J::obj();
        for (k, v) in &self.stats {
            s.put(k, *v);
        }
        let mut kh = J::obj();
        for (k, v) in &self.known_hits {
            kh.put(k, *v);
        }
        let j = J::obj()
            .set("stats", s)
            .set("known_hits", kh)
            .set("violations", self.violations)
            .set("samples", J::Arr(self.samples.clone()));
        // distinct hashes go to a side file next to the marker
        if let Ok(path) = std::env::var("MC_DISTINCT_FILE") {
            let mut bytes = Vec::with_capacity(self.distinct.len() * 8);
            for h in &self.distinct {
                bytes.extend_from_slice(&h.to_le_bytes());
            }
            // append: a resumed worker adds to what its predecessor could not write
            if let Ok(mut f) = std::fs::OpenOptions::new().create(true).append(true).open(path) {
                let _ = f.write_all(&bytes);
            }
        }
        let out = std::io::stdout();
        let mut l = out.lock();
        let _ = writeln!(l, "S\t{}", j.dump());
        let _ = l.flush();
    }
}

pub fn fnv(data: &[u8]) -> u64 {
    let mut h: u64 = 0xcbf29ce484222325;
    for &b in data {
        h ^= b as u64;
        h = h.wrapping_mul(0x100000001b3);
    }
    h
}

pub fn make_worker_ctx(args: &[String]) -> WorkerCtx {
    // worker <check> <tier> <shard> <nshards> <resume_after> <marker path | -> [only idx]
    let check = args[0].clone();
    let tier = Tier::parse(&args[1]).expect("tier");
    let shard: u64 = args[2].parse().unwrap();
    let nshards: u64 = args[3].parse().unwrap();
    let resume_after: i64 = args[4].parse().unwrap();
    let marker = if args[5] != "-" { map_marker(&args[5]) } else { std::ptr::null_mut() };
    let only = args.get(6).and_then(|s| s.parse().ok());
    let prop = check.split('.').next().unwrap().to_string();
    WorkerCtx {
        known: load_known(&prop),
        check,
        tier,
        shard,
        nshards,
        resume_after,
        only,
        marker,
        stats: BTreeMap::new(),
        distinct: HashSet::new(),
        samples: Vec::new(),
        max_samples: 6,
        violations: 0,
        emitted: 0,
        known_hits: BTreeMap::new(),
        heartbeat: 0,
        seed: std::env::var("VERIF_SEED").ok().and_then(|s| s.parse().ok()).unwrap_or(0),
        collected: None,
        pairs: Vec::new(),
    }
}

/// A context that only collects failures (used by replay).
pub fn collector_ctx(check: &str, tier: Tier) -> WorkerCtx {
    let args: Vec<String> =
        [check, tier.name(), "0", "1", "-1", "-"].iter().map(|s| s.to_string()).collect();
    let mut c = make_worker_ctx(&args);
    c.known = KnownDb { members: HashMap::new(), descriptions: BTreeMap::new() };
    c.collected = Some(Vec::new());
    c
}

fn map_marker(path: &str) -> *mut u8 {
    use std::os::unix::io::AsRawFd;
    let f = std::fs::OpenOptions::new().read(true).write(true).create(true).open(path).expect("marker file");
    f.set_len(MARKER_SIZE as u64).unwrap();
    let p = unsafe {
        libc::mmap(
            std::ptr::null_mut(),
            MARKER_SIZE,
            libc::PROT_READ | libc::PROT_WRITE,
            libc::MAP_SHARED,
            f.as_raw_fd(),
            0,
        )
    };
    assert!(p != libc::MAP_FAILED);
    p as *mut u8
}

fn read_marker(path: &str) -> (u64, u64, u64, Vec<u8>) {
    let b = std::fs::read(path).unwrap_or_default();
    if b.len() < TEXT_OFF {
        return (0, 0, 0, Vec::new());
    }
    let g = |o: usize| u64::from_le_bytes(b[o..o + 8].try_into().unwrap());
    let n = (g(24) as usize).min(b.len() - TEXT_OFF);
    (g(0), g(8), g(16), b[TEXT_OFF..TEXT_OFF + n].to_vec())
}

// ---------------------------------------------------------------------------------------------
// fork-based isolation of a single risky execution inside a worker

pub enum Iso {
    Done(Vec<u8>),
    Signal(i32),
    Timeout,
    Exit(i32),
}

/// Run `f` in a forked child (the worker is single-threaded, so fork is safe). The child's
/// return bytes come back through a pipe.
pub fn isolated(timeout_ms: u64, f: impl FnOnce() -> Vec<u8>) -> Iso {
    unsafe {
        let mut fds = [0i32; 2];
        if libc::pipe(fds.as_mut_ptr()) != 0 {
            return Iso::Exit(-1);
        }
        let _ = std::io::stdout().flush();
        let pid = libc::fork();
        if pid < 0 {
            return Iso::Exit(-1);
        }
        if pid == 0 {
            libc::prctl(libc::PR_SET_PDEATHSIG, libc::SIGKILL);
            libc::close(fds[0]);
            let r = std::panic::catch_unwind(std::panic::AssertUnwindSafe(f));
            let code = match r {
                Ok(bytes) => {
                    let mut off = 0;
                    while off < bytes.len() {
                        let n = libc::write(fds[1], bytes[off..].as_ptr() as *const _, bytes.len() - off);
                        if n <= 0 {
                            break;
                        }
                        off += n as usize;
                    }
                    0
                }
                Err(_) => 101,
            };
            libc::_exit(code);
        }
        libc::close(fds[1]);
        // non-blocking read so a chatty child cannot block on a full pipe
        let fl = libc::fcntl(fds[0], libc::F_GETFL);
        libc::fcntl(fds[0], libc::F_SETFL, fl | libc::O_NONBLOCK);
        let mut out = Vec::new();
        let start = Instant::now();
        let mut status = 0i32;
        let mut buf = [0u8; 4096];
        let mut done = false;
        let mut sleep_us = 50;
        loop {
            loop {
                let n = libc::read(fds[0], buf.as_mut_ptr() as *mut _, buf.len());
                if n > 0 {
                    out.extend_from_slice(&buf[..n as usize]);
                } else {
                    break;
                }
            }
            if done {
                break;
            }
            let r = libc::waitpid(pid, &mut status, libc::WNOHANG);
            if r == pid {
                done = true;
                continue;
            }
            if start.elapsed() > Duration::from_millis(timeout_ms) {
                libc::kill(pid, libc::SIGKILL);
                libc::waitpid(pid, &mut status, 0);
                libc::close(fds[0]);
                return Iso::Timeout;
            }
            std::thread::sleep(Duration::from_micros(sleep_us));
            sleep_us = (sleep_us * 2).min(2000);
        }
        libc::close(fds[0]);
        if libc::WIFSIGNALED(status) {
            Iso::Signal(libc::WTERMSIG(status))
        } else if libc::WEXITSTATUS(status) != 0 {
            Iso::Exit(libc::WEXITSTATUS(status))
        } else {
            Iso::Done(out)
        }
    }
}

// ---------------------------------------------------------------------------------------------
// driver

struct WorkerProc {
    shard: u64,
    child: Child,
    marker_path: String,
    last_beat: u64,
    last_change: Instant,
    respawns: u32,
    rx: std::sync::mpsc::Receiver<String>,
    reader: Option<std::thread::JoinHandle<()>>,
    done: bool,
}

fn spawn_worker(exe: &str, check: &str, tier: Tier, shard: u64, nshards: u64, resume_after: i64, dir: &str) -> WorkerProc {
    let marker_path = format!("{dir}/w{shard}.marker");
    let distinct_path = format!("{dir}/w{shard}.distinct");
    let mut child = Command::new(exe)
        .arg("worker")
        .arg(check)
        .arg(tier.name())
        .arg(shard.to_string())
        .arg(nshards.to_string())
        .arg(resume_after.to_string())
        .arg(&marker_path)
        .env("MC_DISTINCT_FILE", &distinct_path)
        .env("MC_PAIRS_FILE", format!("{dir}/w{shard}.pairs"))
        .stdin(Stdio::null())
        .stdout(Stdio::piped())
        .stderr(Stdio::inherit())
        .process_group(0)
        .spawn()
        .expect("spawn worker");
    let stdout = child.stdout.take().unwrap();
    let (tx, rx) = std::sync::mpsc::channel();
    let reader = std::thread::spawn(move || {
        let r = BufReader::new(stdout);
        for line in r.lines().map_while(Result::ok) {
            if tx.send(line).is_err() {
                break;
            }
        }
    });
    WorkerProc {
        reader: Some(reader),
        shard,
        child,
        marker_path,
        last_beat: u64::MAX,
        last_change: Instant::now(),
        respawns: 0,
        rx,
        done: false,
    }
}

pub struct Outcome {
    pub stats: BTreeMap<String, u64>,
    pub known_hits: BTreeMap<String, u64>,
    pub violations: Vec<J>,
    pub violation_count: u64,
    pub samples: Vec<J>,
    pub distinct: u64,
    pub crashes: Vec<J>,
    pub capped: bool,
    /// keys whose observations disagree between workers
    pub disagreements: Vec<(u64, Vec<u64>)>,
    pub agreed_keys: u64,
}

fn jobs() -> u64 {
    std::env::var("VERIF_JOBS").ok().and_then(|s| s.parse().ok()).unwrap_or_else(|| {
        std::thread::available_parallelism().map(|n| n.get() as u64).unwrap_or(8).min(16)
    })
}

/// Run all shards of one (sub)check and aggregate.
pub fn drive(exe: &str, check: &str, tier: Tier, hang_secs: u64) -> Outcome {
    let nshards = jobs();
    let dir = format!("{}/run/{}-{}", crate::target_dir(), check, std::process::id());
    let _ = std::fs::remove_dir_all(&dir);
    std::fs::create_dir_all(&dir).unwrap();
    let mut out = Outcome {
        stats: BTreeMap::new(),
        known_hits: BTreeMap::new(),
        violations: Vec::new(),
        violation_count: 0,
        samples: Vec::new(),
        distinct: 0,
        crashes: Vec::new(),
        capped: false,
        disagreements: Vec::new(),
        agreed_keys: 0,
    };
    let mut workers: Vec<WorkerProc> =
        (0..nshards).map(|s| spawn_worker(exe, check, tier, s, nshards, -1, &dir)).collect();
    let mut seen_keys = HashSet::new();
    loop {
        let mut all_done = true;
        for w in workers.iter_mut() {
            if w.done {
                continue;
            }
            all_done = false;
            while let Ok(line) = w.rx.try_recv() {
                handle_line(&line, &mut out, &mut seen_keys);
            }
            // progress watchdog
            let (idx, sub, beat, text) = read_marker(&w.marker_path);
            if beat != w.last_beat {
                w.last_beat = beat;
                w.last_change = Instant::now();
            }
            let exited = w.child.try_wait().ok().flatten();
            let hung = exited.is_none() && w.last_change.elapsed() > Duration::from_secs(hang_secs);
            if hung {
                // the worker leads its own process group: take forked children down with it
                unsafe {
                    libc::kill(-(w.child.id() as i32), libc::SIGKILL);
                }
                let _ = w.child.kill();
                let _ = w.child.wait();
            }
            if let Some(status) = exited.or_else(|| if hung { w.child.try_wait().ok().flatten() } else { None }) {
                // drain remaining output
                if let Some(h) = w.reader.take() {
                    let _ = h.join();
                }
                while let Ok(line) = w.rx.try_recv() {
                    handle_line(&line, &mut out, &mut seen_keys);
                }
                use std::os::unix::process::ExitStatusExt;
                if status.success() && !hung {
                    w.done = true;
                    continue;
                }
                let what = if hung {
                    "hang".to_string()
                } else if let Some(sig) = status.signal() {
                    format!("signal {sig}")
                } else {
                    format!("exit {}", status.code().unwrap_or(-1))
                };
                out.crashes.push(
                    J::obj()
                        .set("check", check)
                        .set("tier", tier.name())
                        .set("idx", idx)
                        .set("sub", sub)
                        .set("shard", w.shard)
                        .set("nshards", nshards)
                        .set("what", what)
                        .set("program", String::from_utf8_lossy(&text).to_string()),
                );
                w.respawns += 1;
                if w.respawns > 25 {
                    out.capped = true;
                    w.done = true;
                    continue;
                }
                let shard = w.shard;
                let respawns = w.respawns;
                *w = spawn_worker(exe, check, tier, shard, nshards, idx as i64, &dir);
                w.respawns = respawns;
            }
        }
        if all_done {
            break;
        }
        std::thread::sleep(Duration::from_millis(25));
    }
    // distinct union
    let mut set: HashSet<u64> = HashSet::new();
    for s in 0..nshards {
        if let Ok(b) = std::fs::read(format!("{dir}/w{s}.distinct")) {
            for c in b.chunks_exact(8) {
                set.insert(u64::from_le_bytes(c.try_into().unwrap()));
            }
        }
    }
    out.distinct = set.len() as u64;
    // cross-worker agreement
    let mut obs: HashMap<u64, Vec<u64>> = HashMap::new();
    for s in 0..nshards {
        if let Ok(b) = std::fs::read(format!("{dir}/w{s}.pairs")) {
            for c in b.chunks_exact(16) {
                let k = u64::from_le_bytes(c[0..8].try_into().unwrap());
                let v = u64::from_le_bytes(c[8..16].try_into().unwrap());
                obs.entry(k).or_default().push(v);
            }
        }
    }
    for (k, vs) in obs {
        if vs.len() >= 2 {
            out.agreed_keys += 1;
        }
        if vs.iter().any(|v| *v != vs[0]) {
            out.disagreements.push((k, vs));
        }
    }
    out.disagreements.sort();
    let _ = std::fs::remove_dir_all(&dir);
    out
}

fn handle_line(line: &str, out: &mut Outcome, seen: &mut HashSet<String>) {
    if let Some(rest) = line.strip_prefix("V\t") {
        if let Ok(j) = J::parse(rest) {
            let key = j.str("key").unwrap_or("").to_string();
            if seen.insert(key) {
                out.violations.push(j);
            }
        }
    } else if let Some(rest) = line.strip_prefix("S\t") {
        if let Ok(j) = J::parse(rest) {
            if let Some(J::Obj(m)) = j.get("stats") {
                for (k, v) in m {
                    let v = v.as_int().unwrap_or(0) as u64;
                    if k.starts_with("max:") {
                        let e = out.stats.entry(k.clone()).or_insert(0);
                        if *e < v {
                            *e = v;
                        }
                    } else {
                        *out.stats.entry(k.clone()).or_insert(0) += v;
                    }
                }
            }
            if let Some(J::Obj(m)) = j.get("known_hits") {
                for (k, v) in m {
                    *out.known_hits.entry(k.clone()).or_insert(0) += v.as_int().unwrap_or(0) as u64;
                }
            }
            out.violation_count += j.int("violations").unwrap_or(0) as u64;
            if let Some(s) = j.arr("samples") {
                for x in s {
                    if out.samples.len() < 8 {
                        out.samples.push(x.clone());
                    }
                }
            }
        }
    } else if !line.is_empty() {
        eprintln!("[worker] {line}");
    }
}

/// Run one whole shard in a fresh process (replay of a crash that needs the cases before it).
pub fn run_shard(exe: &str, check: &str, tier: Tier, shard: u64, nshards: u64, timeout_secs: u64) -> String {
    let mut child = Command::new(exe)
        .args(["worker", check, tier.name(), &shard.to_string(), &nshards.to_string(), "-1", "-"])
        .stdin(Stdio::null())
        .stdout(Stdio::null())
        .stderr(Stdio::null())
        .spawn()
        .expect("spawn");
    let start = Instant::now();
    loop {
        if let Ok(Some(st)) = child.try_wait() {
            use std::os::unix::process::ExitStatusExt;
            return if st.success() {
                "ok".to_string()
            } else if let Some(s) = st.signal() {
                format!("signal {s}")
            } else {
                format!("exit {}", st.code().unwrap_or(-1))
            };
        }
        if start.elapsed() > Duration::from_secs(timeout_secs) {
            let _ = child.kill();
            let _ = child.wait();
            return "hang".to_string();
        }
        std::thread::sleep(Duration::from_millis(20));
    }
}

/// Run a single case in a fresh process and return its output lines and how it ended.
pub fn run_one(exe: &str, check: &str, tier: Tier, idx: u64, timeout_secs: u64) -> (Vec<String>, String) {
    let mut child = Command::new(exe)
        .args(["worker", check, tier.name(), "0", "1", "-1", "-", &idx.to_string()])
        .stdin(Stdio::null())
        .stdout(Stdio::piped())
        .stderr(Stdio::null())
        .spawn()
        .expect("spawn");
    let stdout = child.stdout.take().unwrap();
    let (tx, rx) = std::sync::mpsc::channel();
    let reader = std::thread::spawn(move || {
        let r = BufReader::new(stdout);
        for line in r.lines().map_while(Result::ok) {
            let _ = tx.send(line);
        }
    });
    let start = Instant::now();
    let how;
    loop {
        if let Ok(Some(st)) = child.try_wait() {
            use std::os::unix::process::ExitStatusExt;
            how = if st.success() {
                "ok".to_string()
            } else if let Some(s) = st.signal() {
                format!("signal {s}")
            } else {
                format!("exit {}", st.code().unwrap_or(-1))
            };
            break;
        }
        if start.elapsed() > Duration::from_secs(timeout_secs) {
            let _ = child.kill();
            let _ = child.wait();
            how = "hang".to_string();
            break;
        }
        std::thread::sleep(Duration::from_millis(5));
    }
    let _ = reader.join();
    let mut lines = Vec::new();
    while let Ok(l) = rx.try_recv() {
        lines.push(l);
    }
    (lines, how)
}
