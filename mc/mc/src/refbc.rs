//! Fully checked reference VM for hpbf bytecode (DESIGN §2.1), written from the documentation of
//! `bc::Instr` / `bc::Loc`: operands are read left to right, `MemZero` reads then clears, the
//! destination is written last, branch offsets are relative to the branch instruction.
//! Every step checks the safety contract dynamically (pc range, operand window, temp index,
//! temp initialised).

use hshim::env::Act;
use hshim::exec::{BcInstr, BcLoc, BcProg};

#[derive(Clone, Debug, PartialEq, Eq)]
pub enum BcEnd {
    Halt,
    StepCap,
    Fault(String),
}

pub struct BcRun {
    pub end: BcEnd,
    pub trace: Vec<Act>,
    pub steps: u64,
    pub branches: u64,
    pub pmin: i64,
    pub pmax: i64,
}

struct Tape {
    cells: Vec<u64>,
    origin: i64,
}

impl Tape {
    fn slot(&mut self, p: i64) -> usize {
        let idx = self.origin + p;
        if idx < 0 {
            let add = ((-idx) as usize).max(self.cells.len());
            let mut n = vec![0; add];
            n.extend_from_slice(&self.cells);
            self.cells = n;
            self.origin += add as i64;
            (self.origin + p) as usize
        } else {
            if idx as usize >= self.cells.len() {
                let newlen = (idx as usize + 1).max(self.cells.len() * 2);
                self.cells.resize(newlen, 0);
            }
            idx as usize
        }
    }
}

pub fn run(p: &BcProg, script: &[u8], step_cap: u64) -> BcRun {
    let mask = p.width.mask();
    let mut t = Tape { cells: vec![0; 64], origin: 32 };
    let mut temps: Vec<Option<u64>> = vec![None; p.temps];
    let mut ptr: i64 = 0;
    let mut pc: usize = 0;
    let mut r = BcRun { end: BcEnd::Halt, trace: Vec::new(), steps: 0, branches: 0, pmin: 0, pmax: 0 };
    let mut inpos = 0usize;
    let n = p.insts.len();
    macro_rules! fault {
        ($($a:tt)*) => {{
            r.end = BcEnd::Fault(format!("pc {}: {}", pc, format!($($a)*)));
            return r;
        }};
    }
    if p.live.len() != n {
        fault!("live bitmap length {} != {} instructions", p.live.len(), n);
    }
    if p.min > 0 || p.max < 0 {
        fault!("access window [{}, {}] does not contain 0", p.min, p.max);
    }
    while pc < n {
        if r.steps >= step_cap {
            r.end = BcEnd::StepCap;
            return r;
        }
        r.steps += 1;
        let inst = p.insts[pc];
        macro_rules! memchk {
            ($o:expr) => {{
                let o: isize = $o;
                if o < p.min || o > p.max {
                    fault!("tape operand [{}] outside the declared window [{}, {}]", o, p.min, p.max);
                }
                o as i64
            }};
        }
        macro_rules! rd {
            ($l:expr) => {{
                match $l {
                    BcLoc::Mem(o) => {
                        let o = memchk!(o);
                        let s = t.slot(ptr + o);
                        t.cells[s]
                    }
                    BcLoc::MemZero(o) => {
                        let o = memchk!(o);
                        let s = t.slot(ptr + o);
                        let v = t.cells[s];
                        t.cells[s] = 0;
                        v
                    }
                    BcLoc::Tmp(i) => {
                        if i >= p.temps {
                            fault!("temp %{} >= declared count {}", i, p.temps);
                        }
                        match temps[i] {
                            Some(v) => v,
                            None => fault!("temp %{} read before it was written", i),
                        }
                    }
                    BcLoc::Imm(v) => v & mask,
                }
            }};
        }
        macro_rules! wr {
            ($l:expr, $v:expr) => {{
                let v: u64 = $v & mask;
                match $l {
                    BcLoc::Mem(o) => {
                        let o = memchk!(o);
                        let s = t.slot(ptr + o);
                        t.cells[s] = v;
                    }
                    BcLoc::Tmp(i) => {
                        if i >= p.temps {
                            fault!("temp %{} >= declared count {}", i, p.temps);
                        }
                        temps[i] = Some(v);
                    }
                    other => fault!("destination {:?} is not writable", other),
                }
            }};
        }
        match inst {
            BcInstr::Noop => {}
            BcInstr::Mov(s) => {
                ptr += s as i64;
                r.pmin = r.pmin.min(ptr);
                r.pmax = r.pmax.max(ptr);
            }
            BcInstr::Scan(c, s) => {
                let c = memchk!(c);
                loop {
                    let sl = t.slot(ptr + c);
                    if t.cells[sl] == 0 {
                        break;
                    }
                    if r.steps >= step_cap {
                        r.end = BcEnd::StepCap;
                        return r;
                    }
                    r.steps += 1;
                    ptr += s as i64;
                    r.pmin = r.pmin.min(ptr);
                    r.pmax = r.pmax.max(ptr);
                }
            }
            BcInstr::Inp(d) => {
                let d = memchk!(d);
                r.trace.push(Act::In);
                let v = if inpos < script.len() {
                    inpos += 1;
                    script[inpos - 1] as u64
                } else {
                    0
                };
                let s = t.slot(ptr + d);
                t.cells[s] = v;
            }
            BcInstr::Out(s) => {
                let o = memchk!(s);
                let sl = t.slot(ptr + o);
                r.trace.push(Act::Out(t.cells[sl] as u8));
            }
            BcInstr::BrZ(c, off) | BcInstr::BrNZ(c, off) => {
                r.branches += 1;
                let c = memchk!(c);
                let sl = t.slot(ptr + c);
                let zero = t.cells[sl] == 0;
                let take = if matches!(inst, BcInstr::BrZ(..)) { zero } else { !zero };
                if take {
                    let tgt = pc as i64 + off as i64;
                    if tgt < 0 || tgt as usize > n {
                        fault!("branch target {} outside 0..={}", tgt, n);
                    }
                    pc = tgt as usize;
                    continue;
                }
            }
            BcInstr::Add(d, a, b) => {
                let x = rd!(a);
                let y = rd!(b);
                wr!(d, x.wrapping_add(y));
            }
            BcInstr::Sub(d, a, b) => {
                let x = rd!(a);
                let y = rd!(b);
                wr!(d, x.wrapping_sub(y));
            }
            BcInstr::Mul(d, a, b) => {
                let x = rd!(a);
                let y = rd!(b);
                wr!(d, x.wrapping_mul(y));
            }
            BcInstr::Copy(d, a) => {
                let x = rd!(a);
                wr!(d, x);
            }
        }
        pc += 1;
    }
    r
}
