//! Instrumented global allocator (DESIGN §2.7).
//!
//! Outside an armed region every request goes to the system allocator. Armed:
//!  * guard placement: the block is carved out of a reserved PROT_NONE arena, whole pages made
//!    read-write, the block flush against the guard page on the chosen side, slack filled with a
//!    canary that is verified on free; freed pages return to PROT_NONE and are never reused
//!    before `reset`.
//!  * fail mode: the k-th armed request of at least `min_size` bytes returns null.
//!
//! Workers are single-threaded; the statics are atomics only to keep the code free of
//! `static mut` references.

use std::alloc::{GlobalAlloc, Layout, System};
use std::sync::atomic::{AtomicBool, AtomicU64, AtomicUsize, Ordering::Relaxed};

pub struct GAlloc;

pub const PLACE_NONE: usize = 0;
pub const PLACE_RIGHT: usize = 1;
pub const PLACE_LEFT: usize = 2;

const PAGE: usize = 4096;
const ARENA_SIZE: usize = 64 << 30;
const CANARY: u8 = 0xA5;
const MAX_BLOCKS: usize = 8192;

static ARMED: AtomicBool = AtomicBool::new(false);
static PLACE: AtomicUsize = AtomicUsize::new(0);
static FAIL_K: AtomicUsize = AtomicUsize::new(0);
static FAIL_MIN: AtomicUsize = AtomicUsize::new(0);
static ZEROED_ONLY: AtomicBool = AtomicBool::new(false);
static IN_ZEROED: AtomicBool = AtomicBool::new(false);
static IN_REALLOC: AtomicBool = AtomicBool::new(false);
static BIG_COUNT: AtomicUsize = AtomicUsize::new(0);
static FAILED: AtomicUsize = AtomicUsize::new(0);

static ARENA: AtomicUsize = AtomicUsize::new(0);
static BUMP: AtomicUsize = AtomicUsize::new(0);
static LIVE: AtomicUsize = AtomicUsize::new(0);
static NBLOCKS: AtomicUsize = AtomicUsize::new(0);
static CANARY_BAD: AtomicUsize = AtomicUsize::new(0);
static ARENA_ALLOCS: AtomicU64 = AtomicU64::new(0);
static FALLBACKS: AtomicU64 = AtomicU64::new(0);
static MAX_REQ: AtomicUsize = AtomicUsize::new(0);

#[derive(Clone, Copy)]
struct Block {
    ptr: usize,
    start: usize,
    len: usize,
    size: usize,
}

struct Table(std::cell::UnsafeCell<[Block; MAX_BLOCKS]>);
unsafe impl Sync for Table {}
static TABLE: Table = Table(std::cell::UnsafeCell::new(
    [Block { ptr: 0, start: 0, len: 0, size: 0 }; MAX_BLOCKS],
));

fn arena_init() -> usize {
    let a = ARENA.load(Relaxed);
    if a != 0 {
        return a;
    }
    let p = unsafe {
        libc::mmap(
            std::ptr::null_mut(),
            ARENA_SIZE,
            libc::PROT_NONE,
            libc::MAP_PRIVATE | libc::MAP_ANONYMOUS | libc::MAP_NORESERVE,
            -1,
            0,
        )
    };
    if p == libc::MAP_FAILED {
        return 0;
    }
    ARENA.store(p as usize, Relaxed);
    BUMP.store(p as usize, Relaxed);
    p as usize
}

fn in_arena(p: usize) -> bool {
    let a = ARENA.load(Relaxed);
    a != 0 && p >= a && p < a + ARENA_SIZE
}

unsafe fn arena_alloc(layout: Layout, place: usize) -> *mut u8 {
    let arena = arena_init();
    let size = layout.size();
    let align = layout.align();
    if arena == 0 || align > PAGE {
        return std::ptr::null_mut();
    }
    let n = NBLOCKS.load(Relaxed);
    if n >= MAX_BLOCKS {
        return std::ptr::null_mut();
    }
    let pages = ((size + PAGE - 1) / PAGE).max(1);
    let bump = BUMP.load(Relaxed);
    let start = bump + PAGE;
    let end = start + pages * PAGE;
    if end + PAGE > arena + ARENA_SIZE {
        return std::ptr::null_mut();
    }
    if libc::mprotect(start as *mut _, pages * PAGE, libc::PROT_READ | libc::PROT_WRITE) != 0 {
        return std::ptr::null_mut();
    }
    BUMP.store(end, Relaxed);
    let p = if place == PLACE_RIGHT { (end - size) & !(align - 1) } else { start };
    // canary on the slack after the block (right: < align bytes; left: up to a page)
    let tail = p + size;
    if tail < end {
        std::ptr::write_bytes(tail as *mut u8, CANARY, end - tail);
    }
    if place == PLACE_RIGHT && p > start {
        // slack before the block (only when size is not a multiple of the page size)
        std::ptr::write_bytes(start as *mut u8, CANARY, p - start);
    }
    let tab = &mut *TABLE.0.get();
    tab[n] = Block { ptr: p, start, len: pages * PAGE, size };
    NBLOCKS.store(n + 1, Relaxed);
    LIVE.fetch_add(1, Relaxed);
    ARENA_ALLOCS.fetch_add(1, Relaxed);
    p as *mut u8
}

unsafe fn arena_free(p: usize) -> bool {
    let tab = &mut *TABLE.0.get();
    let n = NBLOCKS.load(Relaxed);
    let mut i = n;
    while i > 0 {
        i -= 1;
        if tab[i].ptr == p && tab[i].len != 0 {
            let b = tab[i];
            let end = b.start + b.len;
            let mut bad = false;
            let mut q = b.ptr + b.size;
            while q < end {
                if *(q as *const u8) != CANARY {
                    bad = true;
                    break;
                }
                q += 1;
            }
            let mut q = b.start;
            while q < b.ptr {
                if *(q as *const u8) != CANARY {
                    bad = true;
                    break;
                }
                q += 1;
            }
            if bad {
                CANARY_BAD.fetch_add(1, Relaxed);
            }
            libc::mprotect(b.start as *mut _, b.len, libc::PROT_NONE);
            tab[i].len = 0;
            LIVE.fetch_sub(1, Relaxed);
            return true;
        }
    }
    false
}

/// fill byte of memory handed out without a zeroing request
const POISON: u8 = 0xa5;

unsafe impl GlobalAlloc for GAlloc {
    unsafe fn alloc(&self, layout: Layout) -> *mut u8 {
        if ARMED.load(Relaxed) {
            let k = FAIL_K.load(Relaxed);
            if layout.size() >= FAIL_MIN.load(Relaxed)
                && FAIL_MIN.load(Relaxed) != 0
                && (!ZEROED_ONLY.load(Relaxed) || IN_ZEROED.load(Relaxed) || IN_REALLOC.load(Relaxed))
            {
                let c = BIG_COUNT.fetch_add(1, Relaxed) + 1;
                if layout.size() > MAX_REQ.load(Relaxed) {
                    MAX_REQ.store(layout.size(), Relaxed);
                }
                if k != 0 && c == k {
                    FAILED.fetch_add(1, Relaxed);
                    return std::ptr::null_mut();
                }
            }
            let place = PLACE.load(Relaxed);
            if place != PLACE_NONE {
                let p = arena_alloc(layout, place);
                if !p.is_null() {
                    if !IN_ZEROED.load(Relaxed) {
                        std::ptr::write_bytes(p, POISON, layout.size());
                    }
                    return p;
                }
                FALLBACKS.fetch_add(1, Relaxed);
            }
        }
        let p = System.alloc(layout);
        // memory that was not asked to be zeroed is poisoned: a read of uninitialised memory (a tape grown
        // with `alloc`/`realloc` and not cleared completely) then shows the same non-zero bytes in every
        // process instead of whatever the system allocator left there
        if !p.is_null() && !IN_ZEROED.load(Relaxed) {
            std::ptr::write_bytes(p, POISON, layout.size());
        }
        p
    }

    unsafe fn alloc_zeroed(&self, layout: Layout) -> *mut u8 {
        IN_ZEROED.store(true, Relaxed);
        let p = self.alloc(layout);
        IN_ZEROED.store(false, Relaxed);
        if !p.is_null() {
            std::ptr::write_bytes(p, 0, layout.size());
        }
        p
    }

    unsafe fn dealloc(&self, ptr: *mut u8, layout: Layout) {
        if in_arena(ptr as usize) {
            if !arena_free(ptr as usize) {
                CANARY_BAD.fetch_add(1, Relaxed);
            }
            return;
        }
        System.dealloc(ptr, layout)
    }

    unsafe fn realloc(&self, ptr: *mut u8, layout: Layout, new_size: usize) -> *mut u8 {
        if !ARMED.load(Relaxed) && !in_arena(ptr as usize) {
            let np = System.realloc(ptr, layout, new_size);
            if !np.is_null() && new_size > layout.size() {
                std::ptr::write_bytes(np.add(layout.size()), POISON, new_size - layout.size());
            }
            return np;
        }
        let new_layout = Layout::from_size_align_unchecked(new_size, layout.align());
        IN_REALLOC.store(true, Relaxed);
        let np = self.alloc(new_layout);
        IN_REALLOC.store(false, Relaxed);
        if !np.is_null() {
            std::ptr::copy_nonoverlapping(ptr, np, layout.size().min(new_size));
            self.dealloc(ptr, layout);
        }
        np
    }
}

/// What to arm for the next execution.
#[derive(Clone, Copy, Debug, Default)]
pub struct Arm {
    /// PLACE_NONE / PLACE_RIGHT / PLACE_LEFT
    pub place: usize,
    /// fail the k-th (1-based) armed request of at least `fail_min` bytes; 0 = never
    pub fail_k: usize,
    /// requests of at least this many bytes are counted as "large"; 0 = do not count
    pub fail_min: usize,
    /// only `alloc_zeroed` and `realloc` requests are candidates: hpbf uses `alloc_zeroed` for the
    /// tape and the interpreter context and for nothing else; `realloc` covers a tape that is grown in
    /// place (and the few Vec growths, which fail cleanly through handle_alloc_error)
    pub zeroed_only: bool,
}

pub fn arm(a: Arm) {
    PLACE.store(a.place, Relaxed);
    FAIL_K.store(a.fail_k, Relaxed);
    FAIL_MIN.store(a.fail_min, Relaxed);
    ZEROED_ONLY.store(a.zeroed_only, Relaxed);
    BIG_COUNT.store(0, Relaxed);
    FAILED.store(0, Relaxed);
    MAX_REQ.store(0, Relaxed);
    if a.place != PLACE_NONE {
        arena_init();
    }
    ARMED.store(a.place != PLACE_NONE || a.fail_min != 0, Relaxed);
}

pub fn disarm() {
    ARMED.store(false, Relaxed);
}

pub fn is_armed() -> bool {
    ARMED.load(Relaxed)
}

/// Temporarily suspend instrumentation (used by the harness' own I/O objects).
pub fn suspend() -> bool {
    ARMED.swap(false, Relaxed)
}

pub fn resume(prev: bool) {
    ARMED.store(prev, Relaxed);
}

#[derive(Clone, Copy, Debug, Default)]
pub struct Report {
    pub big_requests: usize,
    pub failed: usize,
    pub canary_bad: usize,
    pub live: usize,
    pub max_request: usize,
}

pub fn report() -> Report {
    Report {
        big_requests: BIG_COUNT.load(Relaxed),
        failed: FAILED.load(Relaxed),
        canary_bad: CANARY_BAD.load(Relaxed),
        live: LIVE.load(Relaxed),
        max_request: MAX_REQ.load(Relaxed),
    }
}

/// Recycle the arena once no block is live. Returns false if blocks are still live.
pub fn reset() -> bool {
    CANARY_BAD.store(0, Relaxed);
    let arena = ARENA.load(Relaxed);
    if arena == 0 {
        return true;
    }
    if LIVE.load(Relaxed) != 0 {
        return false;
    }
    let bump = BUMP.load(Relaxed);
    if bump > arena {
        unsafe {
            libc::madvise(arena as *mut _, bump - arena + PAGE, libc::MADV_DONTNEED);
        }
    }
    BUMP.store(arena, Relaxed);
    NBLOCKS.store(0, Relaxed);
    true
}

pub fn totals() -> (u64, u64) {
    (ARENA_ALLOCS.load(Relaxed), FALLBACKS.load(Relaxed))
}
