//! Non-generic facade over rolandbernard/hpbf plus the instrumented allocator and the
//! scripted environment. Everything that monomorphises hpbf's executors lives here so the
//! checker crate itself recompiles quickly.

pub mod env;
pub mod exec;
pub mod galloc;

use std::cell::RefCell;

#[global_allocator]
static GLOBAL: galloc::GAlloc = galloc::GAlloc;

thread_local! {
    static PANIC_LOC: RefCell<String> = const { RefCell::new(String::new()) };
}

/// Install a quiet panic hook that remembers the panic location.
pub fn install_panic_hook() {
    std::panic::set_hook(Box::new(|info| {
        let prev = galloc::suspend();
        let loc = info
            .location()
            .map(|l| format!("{}:{}", l.file(), l.line()))
            .unwrap_or_default();
        if std::env::var_os("MC_PANIC_VERBOSE").is_some() {
            eprintln!("panic: {info}");
        }
        PANIC_LOC.with(|p| *p.borrow_mut() = loc);
        galloc::resume(prev);
    }));
}

pub fn take_panic_location() -> String {
    PANIC_LOC.with(|p| std::mem::take(&mut *p.borrow_mut()))
}
