//! The environment as an explored choice: scripted `Read`/`Write` objects sharing one log
//! (DESIGN §2.2). They never panic and never allocate after construction.

use std::cell::RefCell;
use std::io::{self, Read, Write};
use std::rc::Rc;

/// One observable I/O event of a run, as the properties define it.
#[derive(Clone, Copy, PartialEq, Eq, Debug, Hash)]
pub enum Act {
    /// a one-byte input request
    In,
    /// an output byte
    Out(u8),
}

/// How a failing output is answered.
#[derive(Clone, Copy, PartialEq, Eq, Debug, Hash)]
pub enum OutFail {
    /// `Ok(0)`: the sink accepts nothing
    Zero,
    /// `Err(..)`
    Err,
    /// `Err(ErrorKind::Interrupted)`: the refusal an `io` convenience wrapper (`write_all`, `read_exact`)
    /// would silently retry. After four interrupted answers the object answers normally again, so an
    /// implementation that retries shows up as later events in the log instead of hanging.
    Interrupted,
}

pub struct Env {
    /// bytes answered to input requests; afterwards end of input (`Ok(0)`) forever
    pub script: Vec<u8>,
    /// global index (over inputs and outputs together) of the first failing action
    pub fail_at: Option<usize>,
    pub out_fail: OutFail,
    /// every action with index >= cap fails as well (keeps miscompiled printers finite)
    pub cap: usize,
    pub log: Vec<Act>,
    pub in_used: usize,
    /// interrupted answers still to give (see `OutFail::Interrupted`)
    pub interrupts_left: u32,
    /// number of read calls that were not for exactly one byte (never expected)
    pub odd_calls: usize,
}

pub type EnvRef = Rc<RefCell<Env>>;

impl Env {
    pub fn new(script: &[u8], cap: usize) -> EnvRef {
        Rc::new(RefCell::new(Env {
            script: script.to_vec(),
            fail_at: None,
            out_fail: OutFail::Err,
            cap,
            log: Vec::with_capacity(cap.min(1 << 16) + 8),
            in_used: 0,
            interrupts_left: 4,
            odd_calls: 0,
        }))
    }

    fn failing(&self) -> bool {
        let i = self.log.len();
        i >= self.cap || self.fail_at.is_some_and(|f| i >= f)
    }

    fn push(&mut self, a: Act) {
        // never grow while the instrumented allocator is armed
        if self.log.len() == self.log.capacity() {
            let prev = crate::galloc::suspend();
            self.log.reserve(self.log.len().max(64));
            crate::galloc::resume(prev);
        }
        self.log.push(a);
    }
}

pub struct EnvReader(pub EnvRef);
pub struct EnvWriter(pub EnvRef);

impl Read for EnvReader {
    fn read(&mut self, buf: &mut [u8]) -> io::Result<usize> {
        let mut e = self.0.borrow_mut();
        if buf.len() != 1 {
            e.odd_calls += 1;
            if buf.is_empty() {
                return Ok(0);
            }
        }
        let mut fail = e.failing();
        e.push(Act::In);
        if fail && e.out_fail == OutFail::Interrupted && e.log.len() <= e.cap {
            if e.interrupts_left > 0 {
                e.interrupts_left -= 1;
                return Err(io::ErrorKind::Interrupted.into());
            }
            fail = false;
        }
        if fail {
            return Err(io::ErrorKind::Other.into());
        }
        if e.in_used < e.script.len() {
            buf[0] = e.script[e.in_used];
            e.in_used += 1;
            Ok(1)
        } else {
            e.in_used += 1;
            Ok(0)
        }
    }
}

impl Write for EnvWriter {
    fn write(&mut self, buf: &[u8]) -> io::Result<usize> {
        let mut e = self.0.borrow_mut();
        if buf.len() != 1 {
            e.odd_calls += 1;
            if buf.is_empty() {
                return Ok(0);
            }
        }
        let fail = e.failing();
        e.push(Act::Out(buf[0]));
        if fail {
            return match e.out_fail {
                OutFail::Zero => Ok(0),
                OutFail::Err => Err(io::ErrorKind::Other.into()),
                OutFail::Interrupted if e.log.len() > e.cap => Err(io::ErrorKind::Other.into()),
                OutFail::Interrupted if e.interrupts_left > 0 => {
                    e.interrupts_left -= 1;
                    Err(io::ErrorKind::Interrupted.into())
                }
                OutFail::Interrupted => Ok(1),
            };
        }
        Ok(1)
    }

    fn flush(&mut self) -> io::Result<()> {
        Ok(())
    }
}
