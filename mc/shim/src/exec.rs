//! Non-generic facade over hpbf's executors: all heavy monomorphisation happens in this crate.

use std::panic::{catch_unwind, AssertUnwindSafe};

use hpbf::bc;
use hpbf::exec::{
    BaseJitCompiler, BcInterpreter, Executable, Executor, InplaceInterpreter, IrInterpreter,
};
use hpbf::ir;
use hpbf::runtime::Context;
use hpbf::{CellType, ErrorKind};

use crate::env::{EnvReader, EnvRef, EnvWriter};
use crate::galloc::{self, Arm};

#[derive(Clone, Copy, PartialEq, Eq, Debug, Hash, PartialOrd, Ord)]
pub enum Width {
    W8 = 8,
    W16 = 16,
    W32 = 32,
    W64 = 64,
}

impl Width {
    pub const ALL: [Width; 4] = [Width::W8, Width::W16, Width::W32, Width::W64];
    pub fn bits(self) -> u32 {
        self as u32
    }
    pub fn mask(self) -> u64 {
        if self == Width::W64 {
            u64::MAX
        } else {
            (1u64 << self.bits()) - 1
        }
    }
    pub fn from_bits(b: u32) -> Option<Width> {
        Width::ALL.into_iter().find(|w| w.bits() == b)
    }
}

#[derive(Clone, Copy, PartialEq, Eq, Debug, Hash, PartialOrd, Ord)]
pub enum Backend {
    Inplace,
    IrInt,
    BcInt,
    BaseJit,
}

impl Backend {
    pub const ALL: [Backend; 4] = [Backend::Inplace, Backend::IrInt, Backend::BcInt, Backend::BaseJit];
    pub fn name(self) -> &'static str {
        match self {
            Backend::Inplace => "inplace",
            Backend::IrInt => "irint",
            Backend::BcInt => "bcint",
            Backend::BaseJit => "basejit",
        }
    }
    pub fn from_name(s: &str) -> Option<Backend> {
        Backend::ALL.into_iter().find(|b| b.name() == s)
    }
}

#[derive(Clone, Debug, PartialEq, Eq)]
pub enum CompileErr {
    Parse { not_opened: bool, position: usize },
    OtherErr(String),
    Panic(String),
}

#[derive(Clone, Copy, Debug, PartialEq, Eq)]
pub enum Mode {
    Execute,
    Limited(usize),
    /// pre-grow the tape with `make_accessible(lo, hi)` and call `execute_unsafe`
    Unsafe { lo: isize, hi: isize },
}

#[derive(Clone, Debug, Default)]
pub struct RunResult {
    /// Some(finished) for `Limited`
    pub finished: Option<bool>,
    pub budget_left: usize,
    pub panicked: Option<String>,
    /// an `Err` returned by the executor: (loop-not-opened?, position)
    pub err: Option<(bool, usize)>,
    pub alloc: galloc::Report,
    pub arena_reset_ok: bool,
}

#[derive(Clone, Copy, PartialEq, Eq, Debug, Hash)]
pub enum BcLoc {
    Mem(isize),
    MemZero(isize),
    Tmp(usize),
    Imm(u64),
}

#[derive(Clone, Copy, PartialEq, Eq, Debug, Hash)]
pub enum BcInstr {
    Noop,
    Scan(isize, isize),
    Mov(isize),
    Inp(isize),
    Out(isize),
    BrZ(isize, isize),
    BrNZ(isize, isize),
    Add(BcLoc, BcLoc, BcLoc),
    Sub(BcLoc, BcLoc, BcLoc),
    Mul(BcLoc, BcLoc, BcLoc),
    Copy(BcLoc, BcLoc),
}

#[derive(Clone, Debug, PartialEq, Eq)]
pub struct BcProg {
    pub width: Width,
    pub temps: usize,
    pub min: isize,
    pub max: isize,
    pub live: Vec<u16>,
    pub insts: Vec<BcInstr>,
    pub text: String,
}

fn conv_loc<C: CellType>(l: bc::Loc<C>) -> BcLoc {
    match l {
        bc::Loc::Mem(m) => BcLoc::Mem(m),
        bc::Loc::MemZero(m) => BcLoc::MemZero(m),
        bc::Loc::Tmp(t) => BcLoc::Tmp(t),
        bc::Loc::Imm(c) => BcLoc::Imm(c.into_u64()),
    }
}

fn conv_prog<C: CellType>(p: &bc::Program<C>, width: Width, with_text: bool) -> BcProg {
    BcProg {
        width,
        temps: p.temps,
        min: p.min_accessed,
        max: p.max_accessed,
        live: p.live.clone(),
        insts: p
            .insts
            .iter()
            .map(|i| match *i {
                bc::Instr::Noop => BcInstr::Noop,
                bc::Instr::Scan(a, b) => BcInstr::Scan(a, b),
                bc::Instr::Mov(a) => BcInstr::Mov(a),
                bc::Instr::Inp(a) => BcInstr::Inp(a),
                bc::Instr::Out(a) => BcInstr::Out(a),
                bc::Instr::BrZ(a, b) => BcInstr::BrZ(a, b),
                bc::Instr::BrNZ(a, b) => BcInstr::BrNZ(a, b),
                bc::Instr::Add(a, b, c) => BcInstr::Add(conv_loc(a), conv_loc(b), conv_loc(c)),
                bc::Instr::Sub(a, b, c) => BcInstr::Sub(conv_loc(a), conv_loc(b), conv_loc(c)),
                bc::Instr::Mul(a, b, c) => BcInstr::Mul(conv_loc(a), conv_loc(b), conv_loc(c)),
                bc::Instr::Copy(a, b) => BcInstr::Copy(conv_loc(a), conv_loc(b)),
            })
            .collect(),
        text: if with_text { format!("{p:?}") } else { String::new() },
    }
}

enum Inner {
    Inplace(String),
    Ir8(IrInterpreter<u8>),
    Ir16(IrInterpreter<u16>),
    Ir32(IrInterpreter<u32>),
    Ir64(IrInterpreter<u64>),
    Bc8(BcInterpreter<u8>),
    Bc16(BcInterpreter<u16>),
    Bc32(BcInterpreter<u32>),
    Bc64(BcInterpreter<u64>),
    Jit8(BaseJitCompiler<u8>),
    Jit16(BaseJitCompiler<u16>),
    Jit32(BaseJitCompiler<u32>),
    Jit64(BaseJitCompiler<u64>),
}

pub struct Compiled {
    pub backend: Backend,
    pub width: Width,
    pub level: u32,
    inner: Inner,
}

fn conv_err(e: hpbf::Error) -> CompileErr {
    match e.kind {
        ErrorKind::LoopNotOpened => CompileErr::Parse { not_opened: true, position: e.position },
        ErrorKind::LoopNotClosed => CompileErr::Parse { not_opened: false, position: e.position },
        k => CompileErr::OtherErr(format!("{k:?}")),
    }
}

pub fn panic_message(p: Box<dyn std::any::Any + Send>) -> String {
    let loc = crate::take_panic_location();
    let msg = if let Some(s) = p.downcast_ref::<&str>() {
        s.to_string()
    } else if let Some(s) = p.downcast_ref::<String>() {
        s.clone()
    } else {
        "<non-string panic>".to_string()
    };
    format!("{msg} @ {loc}")
}

/// Build an executor. Panics are caught and reported.
pub fn compile(backend: Backend, width: Width, level: u32, code: &str) -> Result<Compiled, CompileErr> {
    let r = catch_unwind(AssertUnwindSafe(|| -> Result<Inner, hpbf::Error> {
        Ok(match (backend, width) {
            (Backend::Inplace, Width::W8) => {
                InplaceInterpreter::<u8>::create(code, level)?;
                Inner::Inplace(code.to_string())
            }
            (Backend::Inplace, Width::W16) => {
                InplaceInterpreter::<u16>::create(code, level)?;
                Inner::Inplace(code.to_string())
            }
            (Backend::Inplace, Width::W32) => {
                InplaceInterpreter::<u32>::create(code, level)?;
                Inner::Inplace(code.to_string())
            }
            (Backend::Inplace, Width::W64) => {
                InplaceInterpreter::<u64>::create(code, level)?;
                Inner::Inplace(code.to_string())
            }
            (Backend::IrInt, Width::W8) => Inner::Ir8(IrInterpreter::create(code, level)?),
            (Backend::IrInt, Width::W16) => Inner::Ir16(IrInterpreter::create(code, level)?),
            (Backend::IrInt, Width::W32) => Inner::Ir32(IrInterpreter::create(code, level)?),
            (Backend::IrInt, Width::W64) => Inner::Ir64(IrInterpreter::create(code, level)?),
            (Backend::BcInt, Width::W8) => Inner::Bc8(BcInterpreter::create(code, level)?),
            (Backend::BcInt, Width::W16) => Inner::Bc16(BcInterpreter::create(code, level)?),
            (Backend::BcInt, Width::W32) => Inner::Bc32(BcInterpreter::create(code, level)?),
            (Backend::BcInt, Width::W64) => Inner::Bc64(BcInterpreter::create(code, level)?),
            (Backend::BaseJit, Width::W8) => Inner::Jit8(BaseJitCompiler::create(code, level)?),
            (Backend::BaseJit, Width::W16) => Inner::Jit16(BaseJitCompiler::create(code, level)?),
            (Backend::BaseJit, Width::W32) => Inner::Jit32(BaseJitCompiler::create(code, level)?),
            (Backend::BaseJit, Width::W64) => Inner::Jit64(BaseJitCompiler::create(code, level)?),
        })
    }));
    match r {
        Ok(Ok(inner)) => Ok(Compiled { backend, width, level, inner }),
        Ok(Err(e)) => Err(conv_err(e)),
        Err(p) => Err(CompileErr::Panic(panic_message(p))),
    }
}

fn run_generic<C: CellType>(
    exec: &dyn Executable<C>,
    mode: Mode,
    env: &EnvRef,
    input_present: bool,
    output_present: bool,
    arm: Arm,
) -> RunResult {
    let mut res = RunResult::default();
    let reader: Option<Box<dyn std::io::Read>> =
        if input_present { Some(Box::new(EnvReader(env.clone()))) } else { None };
    let writer: Option<Box<dyn std::io::Write>> =
        if output_present { Some(Box::new(EnvWriter(env.clone()))) } else { None };
    let mut cxt = Context::<C>::new(reader, writer);
    if let Mode::Limited(b) = mode {
        cxt.budget = b;
    }
    let armed = arm.place != galloc::PLACE_NONE || arm.fail_min != 0;
    if armed {
        galloc::arm(arm);
    }
    let r = catch_unwind(AssertUnwindSafe(|| match mode {
        Mode::Execute => exec.execute(&mut cxt).map(|_| None),
        Mode::Limited(_) => exec.execute_limited(&mut cxt).map(Some),
        Mode::Unsafe { lo, hi } => {
            cxt.memory.make_accessible(lo, hi);
            unsafe { exec.execute_unsafe(&mut cxt).map(|_| None) }
        }
    }));
    if armed {
        galloc::disarm();
    }
    match r {
        Ok(Ok(f)) => res.finished = f,
        Ok(Err(e)) => {
            res.err = Some((matches!(e.kind, ErrorKind::LoopNotOpened), e.position));
        }
        Err(p) => res.panicked = Some(panic_message(p)),
    }
    res.budget_left = cxt.budget;
    drop(cxt);
    if armed {
        res.alloc = galloc::report();
        res.arena_reset_ok = galloc::reset();
    }
    res
}

macro_rules! dispatch {
    ($self:ident, $e:ident, $c:ident, $body:expr, $inplace:expr) => {
        match &$self.inner {
            Inner::Inplace(code) => {
                let code: &str = code;
                match $self.width {
                    Width::W8 => {
                        type $c = u8;
                        let $e = &InplaceInterpreter::<u8>::create(code, 0).unwrap();
                        $inplace
                    }
                    Width::W16 => {
                        type $c = u16;
                        let $e = &InplaceInterpreter::<u16>::create(code, 0).unwrap();
                        $inplace
                    }
                    Width::W32 => {
                        type $c = u32;
                        let $e = &InplaceInterpreter::<u32>::create(code, 0).unwrap();
                        $inplace
                    }
                    Width::W64 => {
                        type $c = u64;
                        let $e = &InplaceInterpreter::<u64>::create(code, 0).unwrap();
                        $inplace
                    }
                }
            }
            Inner::Ir8($e) => { type $c = u8; $body }
            Inner::Ir16($e) => { type $c = u16; $body }
            Inner::Ir32($e) => { type $c = u32; $body }
            Inner::Ir64($e) => { type $c = u64; $body }
            Inner::Bc8($e) => { type $c = u8; $body }
            Inner::Bc16($e) => { type $c = u16; $body }
            Inner::Bc32($e) => { type $c = u32; $body }
            Inner::Bc64($e) => { type $c = u64; $body }
            Inner::Jit8($e) => { type $c = u8; $body }
            Inner::Jit16($e) => { type $c = u16; $body }
            Inner::Jit32($e) => { type $c = u32; $body }
            Inner::Jit64($e) => { type $c = u64; $body }
        }
    };
}

impl Compiled {
    /// Run once on a fresh context wired to `env`.
    pub fn run(&self, mode: Mode, env: &EnvRef, input_present: bool, output_present: bool, arm: Arm) -> RunResult {
        dispatch!(
            self,
            e,
            Cx,
            run_generic::<Cx>(e, mode, env, input_present, output_present, arm),
            run_generic::<Cx>(e, mode, env, input_present, output_present, arm)
        )
    }

    /// The bytecode the executor actually holds (bytecode interpreter and JIT only).
    pub fn bytecode(&self, with_text: bool) -> Option<BcProg> {
        let w = self.width;
        match &self.inner {
            Inner::Bc8(e) => Some(conv_prog(e.verif_bytecode(), w, with_text)),
            Inner::Bc16(e) => Some(conv_prog(e.verif_bytecode(), w, with_text)),
            Inner::Bc32(e) => Some(conv_prog(e.verif_bytecode(), w, with_text)),
            Inner::Bc64(e) => Some(conv_prog(e.verif_bytecode(), w, with_text)),
            Inner::Jit8(e) => Some(conv_prog(e.verif_bytecode(), w, with_text)),
            Inner::Jit16(e) => Some(conv_prog(e.verif_bytecode(), w, with_text)),
            Inner::Jit32(e) => Some(conv_prog(e.verif_bytecode(), w, with_text)),
            Inner::Jit64(e) => Some(conv_prog(e.verif_bytecode(), w, with_text)),
            _ => None,
        }
    }

    /// Machine code of the JIT (None for the other backends).
    pub fn machine_code(&self, limited: bool, safe: bool) -> Option<Vec<u8>> {
        match &self.inner {
            Inner::Jit8(e) => Some(e.print_mc(limited, safe)),
            Inner::Jit16(e) => Some(e.print_mc(limited, safe)),
            Inner::Jit32(e) => Some(e.print_mc(limited, safe)),
            Inner::Jit64(e) => Some(e.print_mc(limited, safe)),
            _ => None,
        }
    }
}

fn ir_generic<C: CellType>(code: &str, level: u32) -> Result<ir::Program<C>, CompileErr> {
    let r = catch_unwind(AssertUnwindSafe(|| {
        ir::Program::<C>::parse(code).map(|p| p.optimize(level))
    }));
    match r {
        Ok(Ok(p)) => Ok(p),
        Ok(Err(e)) => Err(conv_err(e)),
        Err(p) => Err(CompileErr::Panic(panic_message(p))),
    }
}

/// `{:?}` of the optimised IR.
pub fn ir_text(width: Width, level: u32, code: &str) -> Result<String, CompileErr> {
    Ok(match width {
        Width::W8 => format!("{:?}", ir_generic::<u8>(code, level)?),
        Width::W16 => format!("{:?}", ir_generic::<u16>(code, level)?),
        Width::W32 => format!("{:?}", ir_generic::<u32>(code, level)?),
        Width::W64 => format!("{:?}", ir_generic::<u64>(code, level)?),
    })
}

/// Result of `Program::parse` only (no optimisation).
pub fn parse_only(width: Width, code: &str) -> Result<(), CompileErr> {
    fn g<C: CellType>(code: &str) -> Result<(), CompileErr> {
        match catch_unwind(AssertUnwindSafe(|| ir::Program::<C>::parse(code).map(|_| ()))) {
            Ok(Ok(())) => Ok(()),
            Ok(Err(e)) => Err(conv_err(e)),
            Err(p) => Err(CompileErr::Panic(panic_message(p))),
        }
    }
    match width {
        Width::W8 => g::<u8>(code),
        Width::W16 => g::<u16>(code),
        Width::W32 => g::<u32>(code),
        Width::W64 => g::<u64>(code),
    }
}

/// `bc::CodeGen::translate` called directly with an arbitrary generator setting.
pub fn translate(width: Width, level: u32, code: &str, num_regs: usize, fuse: bool, with_text: bool) -> Result<BcProg, CompileErr> {
    fn g<C: CellType>(code: &str, level: u32, num_regs: usize, fuse: bool, width: Width, with_text: bool) -> Result<BcProg, CompileErr> {
        let ir = ir_generic::<C>(code, level)?;
        match catch_unwind(AssertUnwindSafe(|| bc::CodeGen::translate(&ir, num_regs, fuse))) {
            Ok(p) => Ok(conv_prog(&p, width, with_text)),
            Err(p) => Err(CompileErr::Panic(panic_message(p))),
        }
    }
    match width {
        Width::W8 => g::<u8>(code, level, num_regs, fuse, width, with_text),
        Width::W16 => g::<u16>(code, level, num_regs, fuse, width, with_text),
        Width::W32 => g::<u32>(code, level, num_regs, fuse, width, with_text),
        Width::W64 => g::<u64>(code, level, num_regs, fuse, width, with_text),
    }
}
